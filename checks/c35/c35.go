// Package c35: clients' volume location cache (wdclient.vidMap) mirrors master
// updates.  This file holds the sequential "histories" half of the property:
// explicit-state BFS over add/delete location notifications against a reference
// ordered set.  The concurrent-schedules half (lookups racing updates) is added
// to the same check by the coordinator: Main() is the place to call it.
package c35

import (
	"fmt"
	"os"
	"sort"
	"strconv"
	"strings"

	"verif/checks/mountlib"
	"verif/mc"
	"verif/mc/racepass"

	"github.com/chrislusf/seaweedfs/weed/wdclient"
)

const rule = "histories: explicit-state BFS over the real wdclient.vidMap for every assignment of 3 volume-server urls to data centers {dc1,dc2} (8) x client data center {none,dc1} (2): events add(vid,url)/delete(vid,url) over 2 vids x 3 urls (12 events); after every event GetLocations, GetVidLocations, LookupVolumeServerUrl and LookupFileId are compared for vids 1,2 and a never-mentioned vid with a reference ordered set (exactly the current urls, each once, correct data center attribute, same-data-center urls before all others, not-found or empty when there are none); every sequence unmerged to depth d0, then merged on (per vid: found flag, ordered urls, slice capacity) until the state space closes or depth d1"

func Main() {
	mc.Main("C35", "model_checking", rule+"; schedules: E1/E2 stateless DFS (sched group binary, vid_map.go rewritten with lock/atomic points and statement-level yields in the lookup path) over all preemption-bounded interleavings of one writer applying 1-3 add/delete notifications and 1-2 readers calling LookupVolumeServerUrl twice: every result must be duplicate free, same-DC first, and equal to the location set at some moment between call and return", func(r *mc.Run) {
		defer mountlib.QuietGlog()()
		if r.Replay != "" {
			if ReplaySchedule(r) || ReplayHistory(r) {
				return
			}
			mc.Fatal("replay: witness kind not recognised")
		}
		if r.ChildPhase() == "" {
			Histories(r)
			// torn entries are data races at heart: free-running -race pass of lookups against updates (DESIGN.md 2.4)
			racepass.Run(r, "vidmap", r.Pick(3, 20), "wdclient")
		}
		// the concurrent-schedules half runs inside the sched group binary (overlay build)
		r.WorkerProcs = 1
		r.ParallelExe(os.Getenv("VERIF_BIN_sched"), "sched", 16, func(shard, n int) { Schedules(r, shard, n) })
	})
}

var urls = []string{"10.0.0.1:8080", "10.0.0.2:8080", "10.0.0.3:8080"}
var vids = []uint32{1, 2}

const strangerVid = 7 // never mentioned in any notification

type config struct {
	clientDC string
	dcs      [3]string
}

func (c config) String() string {
	cd := c.clientDC
	if cd == "" {
		cd = "none"
	}
	return fmt.Sprintf("client=%s;u1=%s,u2=%s,u3=%s", cd, c.dcs[0], c.dcs[1], c.dcs[2])
}

func parseConfig(s string) (c config, ok bool) {
	var cd string
	var d [3]string
	s = strings.NewReplacer(";", " ", ",", " ", "=", " ").Replace(s)
	if n, _ := fmt.Sscanf(s, "client %s u1 %s u2 %s u3 %s", &cd, &d[0], &d[1], &d[2]); n != 4 {
		return c, false
	}
	if cd == "none" {
		cd = ""
	}
	return config{clientDC: cd, dcs: d}, true
}

func allConfigs() []config {
	var out []config
	for _, cd := range []string{"", "dc1"} {
		for m := 0; m < 8; m++ {
			c := config{clientDC: cd}
			for i := 0; i < 3; i++ {
				c.dcs[i] = "dc1"
				if m&(1<<uint(i)) != 0 {
					c.dcs[i] = "dc2"
				}
			}
			out = append(out, c)
		}
	}
	return out
}

// ---- the system ---------------------------------------------------------------

type system struct {
	r   *mc.Run
	cl  *mountlib.Classes
	cfg config
	vm  *wdclient.VidMapV
	ref map[uint32][]int // vid -> url indices in insertion order
}

func (s *system) StaticMenu() {}
func (s *system) Close()      {}

func (s *system) Reset() {
	s.vm = wdclient.NewVidMapV(s.cfg.clientDC)
	s.ref = map[uint32][]int{}
}

func (s *system) Events() []string {
	var evs []string
	for _, op := range []string{"add", "del"} {
		for _, v := range vids {
			for u := range urls {
				evs = append(evs, fmt.Sprintf("%s:%d:u%d", op, v, u+1))
			}
		}
	}
	return evs
}

func (s *system) loc(u int) wdclient.Location {
	return wdclient.Location{Url: urls[u], PublicUrl: "pub-" + urls[u], DataCenter: s.cfg.dcs[u]}
}

func parseEvent(ev string) (op string, vid uint32, u int) {
	p := strings.Split(ev, ":")
	if len(p) != 3 || len(p[2]) != 2 {
		mc.Fatal("bad event %q", ev)
	}
	v, _ := strconv.Atoi(p[1])
	return p[0], uint32(v), int(p[2][1] - '1')
}

func indexOf(xs []int, x int) int {
	for i, y := range xs {
		if y == x {
			return i
		}
	}
	return -1
}

// do executes the event on the real map and the reference and returns the input class.
func (s *system) do(ev string) string {
	op, vid, u := parseEvent(ev)
	cur, known := s.ref[vid]
	pos := indexOf(cur, u)
	var ic string
	switch op {
	case "add":
		switch {
		case !known:
			ic = "add:new-vid"
		case pos >= 0:
			ic = "add:duplicate-url"
		case len(cur) == 0:
			ic = "add:to-emptied-vid"
		default:
			ic = "add:further-url"
		}
		s.vm.AddLocationV(vid, s.loc(u))
		if pos < 0 {
			s.ref[vid] = append(append([]int{}, cur...), u)
		}
	case "del":
		switch {
		case !known:
			ic = "del:unknown-vid"
		case pos < 0:
			ic = "del:absent-url"
		case len(cur) == 1:
			ic = "del:only-url"
		case pos == 0:
			ic = "del:first-of-several"
		case pos == len(cur)-1:
			ic = "del:last-of-several"
		default:
			ic = "del:middle"
		}
		s.vm.DeleteLocationV(vid, s.loc(u))
		if pos >= 0 {
			nw := append([]int{}, cur[:pos]...)
			s.ref[vid] = append(nw, cur[pos+1:]...)
		}
	default:
		mc.Fatal("bad event %q", ev)
	}
	return ic
}

func (s *system) Replay(ev string) { s.do(ev) }

func (s *system) Apply(ev string) (viol string) {
	defer func() {
		if e := recover(); e != nil {
			viol = mountlib.Viol("panic:"+strings.SplitN(ev, ":", 2)[0], "%s panicked: %v", ev, e)
		}
	}()
	// results handed out before the update (a caller may still hold them)
	type heldT struct {
		live []wdclient.Location
		copy []wdclient.Location
	}
	held := map[uint32]heldT{}
	for _, v := range vids {
		l, _ := s.vm.GetLocations(v)
		held[v] = heldT{l, append([]wdclient.Location{}, l...)}
	}
	ic := s.do(ev)
	for _, v := range vids {
		h := held[v]
		for i := range h.live {
			if h.live[i] != h.copy[i] {
				// not judged here (the statement's sequential half speaks about what a lookup
				// returns, not about slices kept across updates); counted for the report
				s.cl.Hit(ic + "|result-held-across-update-was-overwritten-in-place")
				s.r.Add("held_results_overwritten_in_place", 1)
				break
			}
		}
	}
	for _, v := range append(append([]uint32{}, vids...), strangerVid) {
		if m := s.checkVid(ic, ev, v); m != "" {
			return m
		}
	}
	return ""
}

func (s *system) sameDC(u int) bool {
	return s.cfg.clientDC != "" && s.cfg.dcs[u] != "" && s.cfg.clientDC == s.cfg.dcs[u]
}

// judgeUrls compares a url list with the reference set of one vid.
func (s *system) judgeUrls(got []string, want []int, prefix, suffix string, orderMatters bool) (sym, msg string) {
	seen := map[int]int{}
	var idx []int
	for _, g := range got {
		u := -1
		for i := range urls {
			if g == prefix+urls[i]+suffix {
				u = i
			}
		}
		if u < 0 {
			return "unknown-url", fmt.Sprintf("returned %q which is no known location", g)
		}
		seen[u]++
		idx = append(idx, u)
	}
	for u, n := range seen {
		if n > 1 {
			return "duplicate-location", fmt.Sprintf("returned %s %d times", urls[u], n)
		}
		if indexOf(want, u) < 0 {
			return "stale-location", fmt.Sprintf("returned %s which is not currently added", urls[u])
		}
	}
	for _, u := range want {
		if seen[u] == 0 {
			return "missing-location", fmt.Sprintf("did not return %s which is currently added", urls[u])
		}
	}
	if orderMatters {
		other := false
		for _, u := range idx {
			if s.sameDC(u) {
				if other {
					return "same-dc-not-first", fmt.Sprintf("returned %v: a same-data-center url follows another data center's", got)
				}
			} else {
				other = true
			}
		}
	}
	return "", ""
}

func (s *system) checkVid(ic, ev string, vid uint32) string {
	want, known := s.ref[vid]
	vs := strconv.Itoa(int(vid))
	state := "some"
	if !known {
		state = "never-added"
	} else if len(want) == 0 {
		state = "all-deleted"
	}
	fail := func(api, sym, msg string) string {
		return mountlib.Viol(ic+":"+api+":"+sym, "after %s %s(vid %d) %s (currently added: %v)", ev, api, vid, msg, s.names(want))
	}

	// GetLocations
	locs, found := s.vm.GetLocations(vid)
	if len(want) == 0 {
		if found && len(locs) > 0 {
			return fail("GetLocations", "stale-location", fmt.Sprintf("returned %d locations", len(locs)))
		}
		s.cl.Hit(fmt.Sprintf("%s|GetLocations|%s|found=%v", ic, state, found))
	} else {
		if !found {
			return fail("GetLocations", "not-found", "reported not found")
		}
		var got []string
		for _, l := range locs {
			got = append(got, l.Url)
			for i := range urls {
				if l.Url == urls[i] && (l.DataCenter != s.cfg.dcs[i] || l.PublicUrl != "pub-"+urls[i]) {
					return fail("GetLocations", "torn-location", fmt.Sprintf("returned %+v whose attributes belong to another location", l))
				}
			}
		}
		if sym, msg := s.judgeUrls(got, want, "", "", false); sym != "" {
			return fail("GetLocations", sym, msg)
		}
		s.cl.Hit(fmt.Sprintf("%s|GetLocations|n=%d", ic, len(want)))
	}

	// GetVidLocations
	locs2, err := s.vm.GetVidLocations(vs)
	if len(want) == 0 {
		if err == nil && len(locs2) > 0 {
			return fail("GetVidLocations", "stale-location", fmt.Sprintf("returned %d locations", len(locs2)))
		}
	} else {
		if err != nil {
			return fail("GetVidLocations", "not-found", "reported "+err.Error())
		}
		var got []string
		for _, l := range locs2 {
			got = append(got, l.Url)
		}
		if sym, msg := s.judgeUrls(got, want, "", "", false); sym != "" {
			return fail("GetVidLocations", sym, msg)
		}
	}

	// LookupVolumeServerUrl: same-data-center first
	us, err := s.vm.LookupVolumeServerUrl(vs)
	if len(want) == 0 {
		if err == nil && len(us) > 0 {
			return fail("LookupVolumeServerUrl", "stale-location", fmt.Sprintf("returned %v", us))
		}
		s.cl.Hit(fmt.Sprintf("%s|LookupVolumeServerUrl|%s|err=%v", ic, state, err != nil))
	} else {
		if err != nil {
			return fail("LookupVolumeServerUrl", "not-found", "reported "+err.Error())
		}
		if sym, msg := s.judgeUrls(us, want, "", "", true); sym != "" {
			return fail("LookupVolumeServerUrl", sym, msg)
		}
		nSame := 0
		for _, u := range want {
			if s.sameDC(u) {
				nSame++
			}
		}
		s.cl.Hit(fmt.Sprintf("%s|LookupVolumeServerUrl|n=%d|sameDC=%d", ic, len(want), nSame))
	}

	// LookupFileId
	fid := vs + ",01aabbccdd"
	fu, err := s.vm.LookupFileId(fid)
	if len(want) == 0 {
		if err == nil && len(fu) > 0 {
			return fail("LookupFileId", "stale-location", fmt.Sprintf("returned %v", fu))
		}
	} else {
		if err != nil {
			return fail("LookupFileId", "not-found", "reported "+err.Error())
		}
		if sym, msg := s.judgeUrls(fu, want, "http://", "/"+fid, true); sym != "" {
			return fail("LookupFileId", sym, msg)
		}
	}
	return ""
}

func (s *system) names(us []int) []string {
	out := []string{}
	for _, u := range us {
		out = append(out, fmt.Sprintf("u%d@%s", u+1, s.cfg.dcs[u]))
	}
	return out
}

func (s *system) Canon() string {
	var b strings.Builder
	for _, v := range vids {
		locs, found := s.vm.GetLocations(v)
		fmt.Fprintf(&b, "v%d found=%v cap=%d [", v, found, cap(locs))
		for _, l := range locs {
			b.WriteString(l.Url + "@" + l.DataCenter + " ")
		}
		b.WriteString("] ")
	}
	b.WriteString("| ref")
	var ks []int
	for v := range s.ref {
		ks = append(ks, int(v))
	}
	sort.Ints(ks)
	for _, v := range ks {
		fmt.Fprintf(&b, " %d:%v", v, s.ref[uint32(v)])
	}
	return b.String()
}

// ---- drivers ------------------------------------------------------------------

// ReplayHistory handles a replay file produced by Histories; it returns false
// when the witness is of another kind (so that other halves of the check can
// try it).
func ReplayHistory(r *mc.Run) bool {
	var w mountlib.Witness
	if err := r.ReplayCase(&w); err != nil || len(w.Events) == 0 {
		return false
	}
	cfg, ok := parseConfig(w.Config)
	if !ok {
		return false
	}
	sys := &system{r: r, cl: mountlib.NewClasses(r), cfg: cfg}
	vs, at := mountlib.ReplayAll(sys, w.Events)
	r.Cases(1)
	for j, v := range vs {
		class, msg := mountlib.SplitViol(v)
		r.Violate(class, fmt.Sprintf("%s (event %d of %s)", msg, at[j]+1, strings.Join(w.Events, " ")), w, nil)
	}
	return true
}

// Histories is the sequential half of C35.
func Histories(r *mc.Run) {
	cl := mountlib.NewClasses(r)
	d0, d1 := r.Pick(3, 4), r.Pick(8, 12)
	closed := 0
	cfgs := allConfigs()
	for _, cfg := range cfgs {
		cfg := cfg
		res := mountlib.RunPBFS(r, cfg.String(), func(int) mc.System {
			return &system{r: r, cl: cl, cfg: cfg}
		}, 16, d0, d1)
		if n := len(mountlib.Levels); n > 0 && mountlib.Levels[n-1].Frontier == 0 {
			closed++ // no new state at the last level: the reachable state space is closed
		}
		_ = res
	}
	r.Set("histories_configs", len(cfgs))
	r.Set("histories_configs_state_space_closed", closed)
	r.Set("histories_unmerged_depth", d0)
	r.Set("histories_max_depth", d1)
	r.Set("histories_cases_by_class", cl.Counts())
	r.Assume("histories: a volume server's data center is fixed during a history (the master sends delete+add when a server moves), so the 3 urls x 2 data centers are explored as 8 assignments, not as re-adding a url under another data center")
	r.Assume("histories: for a vid whose locations were all deleted both an empty list and not-found count as 'no locations' (the statement allows either); which one occurs is recorded in the classes")
	r.Assume("histories: slices handed out by GetLocations before an update and overwritten in place by it are counted (held_results_overwritten_in_place) but judged only by the concurrent half of the property")
}
