// Package c33: client-side compression and encryption are transparent and
// decompression is robust.
//
// Part 1 (transparency).  Real code: operation.UploadData (doUploadData's
// compression / encryption decisions, upload_content) -> real volume server
// (ParseUpload, GET handler) -> util.ReadUrlAsStream / readEncryptedUrl, called
// exactly as the filer's chunk reader does (cipher key and gzip flag taken from
// the UploadResult).  Space: data shapes x file names x mime types x cipher
// {off,on} (+ the "input already gzipped" entry point for valid gzip input) x
// fetch {full chunk, every range of a small offset/size set}.  Oracle: the
// concatenated bytes handed to the callback equal the original bytes (slice).
//
// Part 2 (robustness).  util.DecompressData / MaybeDecompressData on every byte
// string of length <= L after the gzip magic 1f 8b, and on every single-byte
// substitution (all 255 values at every position) and every truncation of
// three valid gzip streams.  A panic is the violation.  The bulk of the space
// runs under recover() inside worker subprocesses; a small complete sub-space
// (four bare headers and every truncation of one valid stream)
// runs WITHOUT recover so that the worker really dies and the driver
// attributes the death to the case (worker isolation).
package c33

import (
	"bytes"
	"compress/gzip"
	"crypto/sha256"
	"encoding/hex"
	"encoding/json"
	"errors"
	"fmt"
	"hash/crc32"
	"io"
	"strings"

	"verif/cluster"
	"verif/mc"

	"github.com/chrislusf/seaweedfs/weed/operation"
	"github.com/chrislusf/seaweedfs/weed/util"
)

func Main() {
	mc.Main("C33", "exploration",
		"transparency: data shapes x file names x mime types x cipher x fetch mode (full, ranges) through operation.UploadData -> real volume server -> util.ReadUrlAsStream; robustness: every byte string of length <= L after 1f 8b and every single-byte substitution / truncation of 3 valid gzip streams through util.DecompressData and MaybeDecompressData (worker-isolated)",
		run)
}

type w = map[string]interface{}

// ---- deterministic data ---------------------------------------------------------

func pseudo(n int, seed string) []byte {
	out := make([]byte, 0, n+32)
	h := sha256.Sum256([]byte(seed))
	for len(out) < n {
		out = append(out, h[:]...)
		h = sha256.Sum256(h[:])
	}
	return out[:n]
}

func gzipOf(b []byte) []byte {
	var buf bytes.Buffer
	zw := gzip.NewWriter(&buf)
	zw.Write(b)
	zw.Close()
	return buf.Bytes()
}

type shape struct {
	Name string
	Data []byte
}

func text(n int) []byte {
	return bytes.Repeat([]byte("the quick brown fox jumps over the lazy dog\n"), n/44+1)[:n]
}

func allShapes() []shape {
	return []shape{
		{"empty", []byte{}},
		{"1byte", []byte("x")},
		{"text-small", text(100)},
		{"gzip-magic-only", []byte{0x1f, 0x8b}},
		{"gzip-magic-junk", append([]byte{0x1f, 0x8b, 0x08, 0x00}, pseudo(60, "junk")...)},
		{"real-gzip-stream", gzipOf(text(500))},
		{"text-20k", text(20 * 1024)},
		{"random-20k", pseudo(20*1024, "rnd")},
		{"text-16k-exact", text(16 * 1024)},
		{"text-16k+1", text(16*1024 + 1)},
		{"head-compressible-tail-random-20k", append(text(128), pseudo(20*1024-128, "tail")...)},
		{"gzip-magic-then-text-20k", append([]byte{0x1f, 0x8b}, text(20*1024)...)},
		{"html-small", []byte("<html><body>hello</body></html>")},
		{"binary-zeros-20k", make([]byte, 20*1024)},
	}
}

func shapes(r *mc.Run) []shape {
	s := allShapes()
	if r.Quick() {
		return s[:11]
	}
	return s
}

// boundaryCases: metadata of boundary length (the needle stores name and mime
// lengths in one byte each) x {incompressible, compressible text, cipher on}, each
// judged itself and then followed by an ordinary upload to the same fresh volume.
func boundaryCases() []rtCase {
	var metas []rtCase
	for _, l := range []int{254, 255, 256, 257, 303} {
		metas = append(metas, rtCase{Mime: "application/x-" + strings.Repeat("m", l-len("application/x-"))})
	}
	for _, l := range []int{254, 255, 256, 300} {
		metas = append(metas, rtCase{Name: strings.Repeat("n", l-4) + ".bin"})
	}
	var out []rtCase
	for _, m := range metas {
		for _, v := range []struct {
			shape  string
			cipher bool
		}{{"random-20k", false}, {"text-20k", false}, {"text-small", true}} {
			c := m
			c.Shape, c.Cipher = v.shape, v.cipher
			out = append(out, c)
			follow := rtCase{Shape: "text-small", Name: "a.txt", Mime: "text/plain", After: &c}
			out = append(out, follow)
		}
	}
	return out
}

func fileNames(r *mc.Run) []string {
	n := []string{"", "a.txt", ".txt", "a.jpg", ".jpg", ".gz", "noext", ".pdf", ".svg", "a.tar.gz", "A.TXT", "dir/a.js", `q"uote.txt`, `back\slash.json`, "sp ace.html", "ü.txt", ".zip", ".go", strings.Repeat("n", 255), strings.Repeat("n", 256) + ".txt"}
	if r.Quick() {
		return n[:9]
	}
	return n
}

func mimes(r *mc.Run) []string {
	m := []string{"", "text/plain", "image/jpeg", "application/octet-stream", "application/json", "application/xml", "application/x-gzip", "text/html; charset=utf-8", "audio/wav", "application/zstd", "foo", strings.Repeat("m", 300)}
	if r.Quick() {
		return m[:6]
	}
	return m
}

// ---- part 1 ------------------------------------------------------------------------------

type rtCase struct {
	Shape  string `json:"shape"`
	Name   string `json:"filename"`
	Mime   string `json:"mime"`
	Cipher bool   `json:"cipher"`
	PreGz  bool   `json:"input_is_gzipped"`
	// After, when set, is uploaded first to the same (fresh) volume and not judged:
	// the case itself is then an ordinary upload that must still read back.
	After *rtCase `json:"after,omitempty"`
}

// metaClass names the boundary-length metadata family of a case ("" = ordinary).
func metaClass(k rtCase) string {
	c := ""
	switch {
	case len(k.Mime) >= 256:
		c = "mime-len>=256"
	case len(k.Mime) >= 254:
		c = "mime-len-254..255"
	case len(k.Name) >= 256:
		c = "name-len>=256"
	case len(k.Name) >= 254:
		c = "name-len-254..255"
	}
	if k.After != nil {
		if a := metaClass(*k.After); a != "" {
			return "after-" + a
		}
	}
	return c
}

type fetch struct {
	full      bool
	off, size int
}

func fetches(n int) []fetch {
	f := []fetch{{true, 0, n}}
	if n == 0 {
		return f
	}
	seen := map[[2]int]bool{}
	add := func(o, s int) {
		if o < 0 || s <= 0 || o+s > n || seen[[2]int{o, s}] {
			return
		}
		seen[[2]int{o, s}] = true
		f = append(f, fetch{false, o, s})
	}
	add(0, n)
	add(0, 1)
	add(1, n-1)
	add(n-1, 1)
	add(n/2, 1)
	add(n/3, n/3)
	add(0, n-1)
	return f
}

const cookie = 0x33c0ffee

func runRT(r *mc.Run, c *cluster.Cluster, key uint64, k rtCase, sh shape) {
	runRTv(r, c, 1, key, k, sh)
}

func shapeByName(name string) shape {
	for _, sh := range allShapes() {
		if sh.Name == name {
			return sh
		}
	}
	mc.Fatal("c33: unknown shape %q", name)
	return shape{}
}

func runRTv(r *mc.Run, c *cluster.Cluster, vid uint32, key uint64, k rtCase, sh shape) {
	if k.After != nil {
		a := *k.After
		ash := shapeByName(a.Shape)
		operation.UploadData(c.Servers[0].HttpUrl(cluster.Fid(vid, key+1<<20, cookie)), a.Name, a.Cipher, ash.Data, false, a.Mime, nil, "")
	}
	fid := cluster.Fid(vid, key, cookie)
	url := c.Servers[0].HttpUrl(fid)
	data := sh.Data
	want := sh.Data
	if k.PreGz {
		data = gzipOf(sh.Data)
	}
	ur, err := operation.UploadData(url, k.Name, k.Cipher, data, k.PreGz, k.Mime, nil, "")
	if err != nil {
		// the statement speaks of data that was uploaded; a refused upload is recorded, not judged
		r.Case(fmt.Sprintf("rt|%s|cipher=%v|upload-error", sh.Name, k.Cipher))
		r.Add("uploads_refused", 1)
		return
	}
	decision := fmt.Sprintf("gz=%d|cipher=%v|pregz=%v", ur.Gzip, len(ur.CipherKey) > 0, k.PreGz)
	r.Sample("roundtrip "+decision, w{"case": k, "bytes": len(sh.Data), "fetches": len(fetches(len(want)))})
	for _, f := range fetches(len(want)) {
		var got []byte
		_, ferr := util.ReadUrlAsStream(url, ur.CipherKey, ur.Gzip > 0, f.full, int64(f.off), f.size, func(d []byte) {
			got = append(got, d...)
		})
		mode := "ranged"
		exp := want
		if f.full {
			mode = "full"
		} else {
			exp = want[f.off : f.off+f.size]
		}
		outcome := "ok"
		switch {
		case ferr != nil:
			outcome = "fetch-error"
		case !bytes.Equal(got, exp):
			outcome = "mismatch"
		}
		mcl := metaClass(k)
		r.Case(fmt.Sprintf("rt|%s|%s|%s|%s|%s", shapeClass(sh), decision, mode, outcome, mcl))
		if outcome != "ok" {
			class := fmt.Sprintf("roundtrip-%s:%s:%s:%s", outcome, mode, decision, shapeClass(sh))
			if mcl != "" {
				class += ":" + mcl
			}
			r.Violate(class, fmt.Sprintf("upload of %s (%d bytes) as %q mime %q cipher=%v pregz=%v -> gzip=%d; fetch %s off=%d size=%d: err=%v got %d bytes (%q…) want %d bytes (%q…)",
				sh.Name, len(sh.Data), k.Name, k.Mime, k.Cipher, k.PreGz, ur.Gzip, mode, f.off, f.size, ferr, len(got), head(got), len(exp), head(exp)),
				w{"part": "roundtrip", "case": k, "full": f.full, "offset": f.off, "size": f.size}, nil)
		}
	}
}

func shapeClass(s shape) string {
	switch {
	case len(s.Data) == 0:
		return "empty"
	case len(s.Data) >= 2 && s.Data[0] == 0x1f && s.Data[1] == 0x8b:
		return "gzip-looking"
	case len(s.Data) > 16*1024:
		return "large"
	}
	return "small"
}

func head(b []byte) string {
	if len(b) > 16 {
		b = b[:16]
	}
	return string(b)
}

func enumRT(r *mc.Run, f func(idx int, k rtCase, sh shape)) {
	idx := 0
	for _, sh := range shapes(r) {
		for _, n := range fileNames(r) {
			for _, m := range mimes(r) {
				for _, ci := range []bool{false, true} {
					f(idx, rtCase{sh.Name, n, m, ci, false, nil}, sh)
					idx++
				}
			}
		}
		// the "input is already gzipped" entry point, with genuinely gzipped input
		for _, ci := range []bool{false, true} {
			f(idx, rtCase{sh.Name, "a.txt", "text/plain", ci, true, nil}, sh)
			idx++
			f(idx, rtCase{sh.Name, "", "", ci, true, nil}, sh)
			idx++
		}
	}
}

// ---- part 2 ------------------------------------------------------------------------------

type dzCase struct {
	Fn  string `json:"fn"` // DecompressData | MaybeDecompressData
	Hex string `json:"input_hex"`
}

func callDecompress(fn string, in []byte) {
	if fn == "MaybeDecompressData" {
		util.MaybeDecompressData(in)
	} else {
		util.DecompressData(in)
	}
}

// panics reports whether the call panics (recovered).
func panics(fn string, in []byte) (p bool, what string) {
	defer func() {
		if x := recover(); x != nil {
			p, what = true, fmt.Sprint(x)
		}
	}()
	callDecompress(fn, in)
	return false, ""
}

// inputClass names the input family by what compress/gzip says about its header.
func inputClass(in []byte) string {
	if len(in) < 2 || in[0] != 0x1f || in[1] != 0x8b {
		return "no-gzip-magic"
	}
	if len(in) < 10 {
		return "gzip-header-truncated" // gzip.NewReader fails reading the 10 fixed header bytes (fast path for the bulk space)
	}
	_, err := gzip.NewReader(bytes.NewReader(in))
	switch {
	case err == nil:
		return "header-accepted"
	case errors.Is(err, io.EOF) || errors.Is(err, io.ErrUnexpectedEOF):
		return "gzip-header-truncated"
	case errors.Is(err, gzip.ErrHeader):
		return "gzip-header-invalid"
	case errors.Is(err, gzip.ErrChecksum):
		return "gzip-header-checksum"
	}
	return "gzip-header-other-error"
}

func streams() [][]byte {
	s1 := gzipOf(nil)
	s2 := gzipOf([]byte("hello hello hello hello"))
	// a stream with FEXTRA, FNAME, FCOMMENT and FHCRC
	var buf bytes.Buffer
	zw := gzip.NewWriter(&buf)
	zw.Name, zw.Comment, zw.Extra = "n", "c", []byte{1, 2}
	zw.Write([]byte("abcabcabc"))
	zw.Close()
	s3 := buf.Bytes()
	// locate end of header: 10 fixed + 2+len(extra) + name\0 + comment\0
	hl := 10 + 2 + 2 + 2 + 2
	hdr := append([]byte{}, s3[:hl]...)
	hdr[3] |= 0x02 // FHCRC
	crc := crc32.ChecksumIEEE(hdr) & 0xffff
	s3 = append(append(hdr, byte(crc), byte(crc>>8)), s3[hl:]...)
	if out, err := io.ReadAll(must(gzip.NewReader(bytes.NewReader(s3)))); err != nil || string(out) != "abcabcabc" {
		mc.Fatal("c33: hand-made FHCRC stream is not valid: %v", err)
	}
	return [][]byte{s1, s2, s3}
}

func must(r *gzip.Reader, err error) *gzip.Reader {
	if err != nil {
		mc.Fatal("c33: gzip: %v", err)
	}
	return r
}

type tally struct {
	r      *mc.Run
	viol   map[string]int
	counts map[string]int64
}

func (t *tally) one(fn string, in []byte) {
	p, what := panics(fn, in)
	ic := inputClass(in)
	key := fmt.Sprintf("dz|%s|%s|panic=%v", fn, ic, p)
	t.counts[key]++
	if p {
		class := "decompress-panic:" + ic
		if t.viol[class] < 3 {
			t.viol[class]++
			t.r.Violate(class, fmt.Sprintf("util.%s(% x) panics: %s", fn, in, what), w{"part": "decompress", "fn": fn, "input_hex": hex.EncodeToString(in)},
				func() bool { p2, _ := panics(fn, in); return p2 })
		} else {
			t.r.Add("violating_cases_not_kept", 1)
		}
	}
}

func (t *tally) flush() {
	for k, n := range t.counts {
		t.r.Distinct(k)
		t.r.Cases(n)
	}
	t.counts = map[string]int64{}
}

var fns = []string{"DecompressData", "MaybeDecompressData"}

func crashClassifier(caseJSON, tail string) (string, string) {
	var c dzCase
	if json.Unmarshal([]byte(caseJSON), &c) != nil || c.Hex == "" && c.Fn == "" {
		return "", ""
	}
	in, err := hex.DecodeString(c.Hex)
	if err != nil {
		return "", ""
	}
	return "decompress-panic:" + inputClass(in), fmt.Sprintf("worker process died in util.%s(% x)", c.Fn, in)
}

// ---- driver -------------------------------------------------------------------------------

func run(r *mc.Run) {
	r.Assume("'never crashes the process' is decided by calling the helpers directly: a panic that escapes DecompressData kills any goroutine that does not recover (filer chunk readers, clients); HTTP handlers that recover are not the subject")
	r.Assume("a refused upload (client error) is recorded but not judged: the statement speaks of data that was uploaded")
	if r.Replay != "" {
		var c struct {
			Part   string `json:"part"`
			Case   rtCase `json:"case"`
			Full   bool   `json:"full"`
			Offset int    `json:"offset"`
			Size   int    `json:"size"`
			Fn     string `json:"fn"`
			Hex    string `json:"input_hex"`
		}
		if err := r.ReplayCase(&c); err != nil {
			mc.Fatal("replay: %v", err)
		}
		if c.Part == "roundtrip" {
			cl := cluster.MustNew(cluster.Options{})
			defer cl.Close()
			cl.MustAddVolume(1, "", "000", "")
			runRT(r, cl, 1, c.Case, shapeByName(c.Case.Shape))
			return
		}
		in, err := hex.DecodeString(c.Hex)
		if err != nil {
			mc.Fatal("replay: %v", err)
		}
		t := &tally{r, map[string]int{}, map[string]int64{}}
		t.one(c.Fn, in)
		t.flush()
		return
	}

	// part 1
	r.Parallel("roundtrip", 16, func(shard, n int) {
		cl := cluster.MustNew(cluster.Options{})
		defer cl.Close()
		cl.MustAddVolume(1, "", "000", "")
		enumRT(r, func(idx int, k rtCase, sh shape) {
			if idx%n != shard {
				return
			}
			if r.Begin(k) {
				runRT(r, cl, uint64(idx+1), k, sh)
			}
		})
	})

	// part 1b: boundary-length metadata, every case on its own fresh volume
	bc := boundaryCases()
	r.Parallel("boundary", 6, func(shard, n int) {
		cl := cluster.MustNew(cluster.Options{})
		defer cl.Close()
		for i, k := range bc {
			if i%n != shard {
				continue
			}
			vid := uint32(i + 1) // fresh volume per case; a follow-up case re-uploads its predecessor first
			cl.MustAddVolume(vid, "", "000", "")
			if r.Begin(k) {
				runRTv(r, cl, vid, 1, k, shapeByName(k.Shape))
			}
		}
	})
	r.Set("boundary_cases", len(bc))

	// part 2a: without recover, worker-isolated
	strs := streams()
	// every truncation of stream 2 (its 10-byte header cut at every length, then
	// the body) plus three bare headers; each expected crash costs a process restart
	var iso [][]byte
	for _, in := range [][]byte{{0x1f, 0x8b}, {0x1f, 0x8b, 0x00}, {0x1f, 0x8b, 0x08}, {0x1f, 0x8b, 0x08, 0xe0, 0, 0, 0, 0, 0, 0xff}} {
		iso = append(iso, in)
	}
	for l := 0; l < len(strs[1]); l++ {
		iso = append(iso, strs[1][:l])
	}
	r.ParallelC("decompress-isolated", 16, func(shard, n int) {
		for i, in := range iso {
			if i%n != shard {
				continue
			}
			for fi, fn := range fns {
				if fi > 0 && i >= 4 {
					continue // MaybeDecompressData only on the bare headers
				}
				if !r.Begin(dzCase{fn, hex.EncodeToString(in)}) {
					continue
				}
				callDecompress(fn, in) // no recover: a panic kills this worker
				r.Case(fmt.Sprintf("dz-isolated|%s|%s|survived", fn, inputClass(in)))
			}
		}
	}, crashClassifier)

	// part 2b: the large space, under recover
	maxLen := r.Pick(2, 3)
	r.Parallel("decompress", 16, func(shard, n int) {
		t := &tally{r, map[string]int{}, map[string]int64{}}
		// all strings of length <= maxLen after the magic; sharded by the first free byte
		if shard == 0 && r.Begin(w{"block": "magic only"}) {
			for _, fn := range fns {
				t.one(fn, []byte{0x1f, 0x8b})
			}
		}
		for b0 := 0; b0 < 256; b0++ {
			if b0%n != shard {
				continue
			}
			if !r.Begin(w{"block": fmt.Sprintf("1f 8b %02x *", b0)}) {
				continue
			}
			buf := []byte{0x1f, 0x8b, byte(b0), 0, 0}
			for _, fn := range fns {
				t.one(fn, buf[:3])
				for b1 := 0; b1 < 256 && maxLen >= 2; b1++ {
					buf[3] = byte(b1)
					t.one(fn, buf[:4])
					for b2 := 0; b2 < 256 && maxLen >= 3; b2++ {
						buf[4] = byte(b2)
						t.one(fn, buf[:5])
					}
				}
			}
			t.flush()
		}
		// substitutions and truncations of valid streams; sharded by position
		for si, s := range strs {
			for p := 0; p < len(s); p++ {
				if p%n != shard {
					continue
				}
				if !r.Begin(w{"block": fmt.Sprintf("stream %d position %d", si, p)}) {
					continue
				}
				for _, fn := range fns {
					t.one(fn, s[:p]) // truncation
					m := append([]byte{}, s...)
					for v := 0; v < 256; v++ {
						if byte(v) == s[p] {
							continue
						}
						m[p] = byte(v)
						t.one(fn, m)
					}
				}
			}
			t.flush()
		}
		// the valid streams themselves decode
		if shard == 0 {
			for si, s := range strs {
				out, err := util.DecompressData(s)
				r.Case(fmt.Sprintf("dz|valid-stream-%d|err=%v", si, err != nil))
				if err != nil {
					r.Violate("valid-gzip-stream-rejected", fmt.Sprintf("stream %d: %v (%d bytes out)", si, err, len(out)), w{"part": "decompress", "fn": "DecompressData", "input_hex": hex.EncodeToString(s)}, nil)
				}
			}
		}
	})
	r.Sample("decompress", dzCase{"DecompressData", "1f8b0800"})
	r.Set("decompress_max_len_after_magic", maxLen)
	r.Set("isolated_inputs", len(iso))
}
