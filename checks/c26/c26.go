// Package c26: S3 requests take effect only with a valid, permitted signature.
//
// The real S3ApiServer router (NewS3ApiServer + registerRouter, identities
// configured) is driven through ServeHTTP with requests produced by an
// independent signer (checks/s3sign), in front of a recording fake filer
// (HTTP + gRPC on loopback).  The matrix
//
//	IAM configuration x registered route (taken from the router by walking it)
//	x bucket x copy-source bucket x credential style x validity x signing
//	identity x confusion header
//
// is enumerated completely.  Oracle: the fake filer was touched  =>  the
// request carried a valid signature of an identity permitted for the route's
// operation on the addressed bucket (or it is anonymous and the anonymous
// identity is permitted).  Second part: every small IAM policy document is
// pushed through the real PutUserPolicy / GetActions and the real canDo, and the
// granted (action, bucket) pairs must be a subset of what the Allow statements name.
package c26

import (
	"encoding/xml"
	"fmt"
	"net/http"
	"net/http/httptest"
	"os"
	"path/filepath"
	"strings"
	"time"

	"github.com/gorilla/mux"
	"google.golang.org/grpc"

	"verif/checks/s3routes"
	"verif/checks/s3sign"
	"verif/mc"

	"github.com/chrislusf/seaweedfs/weed/s3api"
)

func Main() {
	mc.Main("C26", "exploration",
		"complete product: IAM configuration {no anonymous, anonymous Read [, anonymous Read:b1 in thorough]} [x virtual-host domain on/off in thorough] x every route registered on the real mux router (walked, each reached by its simplest matching request) x bucket {b1,b1x} x copy-source bucket x credential style {none,V2 header,V2 presigned,V4 header,V4 presigned,V4 streaming,POST policy} x validity {valid,wrong secret,unknown key,signed for the other bucket,date/policy tampered after signing,expired} x 7 signing identities x confusion header {none,streaming sha256,multipart content type,Bearer [,lower-case streaming value, upper-case form type in thorough]}; plus every IAM policy document of <=2 statements over small effect/action/resource alphabets; distinct = (style,validity,confusion,authorised,touched)",
		run)
}

type w = map[string]interface{}

// ---- identities ------------------------------------------------------------------

type ident struct {
	Name    string
	Access  string
	Secret  string
	Actions []string
}

var signers = []ident{
	{"admin", "AKADMIN00000000000001", "SKadminSecret0000000000000000000000000001", []string{"Admin"}},
	{"readb1", "AKREADB10000000000002", "SKreadb1Secret000000000000000000000000002", []string{"Read:b1"}},
	{"writeb1", "AKWRITEB1000000000003", "SKwriteb1Secret00000000000000000000000003", []string{"Write:b1"}},
	{"lister", "AKLISTER0000000000004", "SKlisterSecret000000000000000000000000004", []string{"List"}},
	{"tagb1", "AKTAGB100000000000005", "SKtagb1Secret0000000000000000000000000005", []string{"Tagging:b1"}},
	{"rwb1", "AKRWB1000000000000006", "SKrwb1Secret00000000000000000000000000006", []string{"Read:b1", "Write:b1"}},
	{"adminb1", "AKADMINB1000000000007", "SKadminb1Secret00000000000000000000000007", []string{"Admin:b1"}},
}

func signerByName(n string) *ident {
	for i := range signers {
		if signers[i].Name == n {
			return &signers[i]
		}
	}
	return nil
}

type iamCfg struct {
	Name string
	Anon []string // nil = no anonymous identity
	Has  bool
}

var iamCfgs = []iamCfg{
	{"noanon", nil, false},
	{"anon-read", []string{"Read"}, true},
	{"anon-readb1", []string{"Read:b1"}, true},
}

func cfgJSON(c iamCfg) string {
	var ids []string
	q := func(ss []string) string {
		var o []string
		for _, s := range ss {
			o = append(o, fmt.Sprintf("%q", s))
		}
		return "[" + strings.Join(o, ",") + "]"
	}
	for _, s := range signers {
		ids = append(ids, fmt.Sprintf(`{"name":%q,"credentials":[{"accessKey":%q,"secretKey":%q}],"actions":%s}`, s.Name, s.Access, s.Secret, q(s.Actions)))
	}
	if c.Has {
		ids = append(ids, fmt.Sprintf(`{"name":"anonymous","actions":%s}`, q(c.Anon)))
	}
	return `{"identities":[` + strings.Join(ids, ",") + `]}`
}

// permits is the oracle's reading of an identity's action list: an action is
// allowed on a bucket if the identity holds it globally or for that bucket, or is
// Admin globally / for that bucket.
func permits(actions []string, need []string, bucket string) bool {
	for _, a := range actions {
		if a == "Admin" || a == "Admin:"+bucket {
			return true
		}
		for _, n := range need {
			if a == n || a == n+":"+bucket {
				return true
			}
		}
	}
	return false
}

type (
	opInfo = s3routes.OpInfo
	probe  = s3routes.Probe
	route  = s3routes.Route
)

const (
	domainName = s3routes.DomainName
	s3Port     = s3routes.S3Port
	region     = s3routes.Region
)

var baseReq = s3routes.BaseReq

// server is one real S3ApiServer with its router.
type server struct {
	cfg    iamCfg
	domain bool
	router *mux.Router
	routes []route
}

func newServer(ff *fakeFiler, dir string, c iamCfg, domain bool) *server {
	cfgFile := filepath.Join(dir, fmt.Sprintf("iam-%s-%v.json", c.Name, domain))
	if err := os.WriteFile(cfgFile, []byte(cfgJSON(c)), 0644); err != nil {
		mc.Fatal("write config: %v", err)
	}
	opt := &s3api.S3ApiServerOption{
		Filer:            ff.httpAddr,
		Port:             s3Port,
		FilerGrpcAddress: ff.grpcAddr,
		Config:           cfgFile,
		BucketsPath:      "/buckets",
		GrpcDialOption:   grpc.WithInsecure(),
	}
	if domain {
		opt.DomainName = domainName
	}
	router := mux.NewRouter().SkipClean(true)
	if _, err := s3api.NewS3ApiServer(router, opt); err != nil {
		mc.Fatal("NewS3ApiServer: %v", err)
	}
	s := &server{cfg: c, domain: domain, router: router}
	s.discover()
	return s
}

func (s *server) discover() { s.routes = s3routes.Discover(s.router, s.domain) }

func (s *server) dispatch(r *s3sign.Req) *route { return s3routes.Dispatch(s.router, s.routes, r) }

// ---- cases ------------------------------------------------------------------------

type Case struct {
	Cfg       string `json:"cfg"`
	Domain    bool   `json:"domain"`
	Route     string `json:"route"`
	Bucket    string `json:"bucket"`
	Src       string `json:"src,omitempty"`
	Style     string `json:"style"`
	Validity  string `json:"validity"`
	Signer    string `json:"signer,omitempty"`
	Confusion string `json:"confusion"`
}

var (
	buckets    = []string{"b1", "b1x"}
	styles     = []string{"none", "v2-header", "v2-presigned", "v4-header", "v4-presigned", "v4-streaming", "post-policy"}
	validities = []string{"valid", "wrong-secret", "unknown-key", "other-bucket", "tampered", "expired"}
)

func confusions(thorough bool) []string {
	c := []string{"none", "streaming", "form", "bearer"}
	if thorough {
		c = append(c, "streaming-lower", "form-upper")
	}
	return c
}

func styleApplies(style string, p probe) bool {
	switch style {
	case "v4-streaming":
		return p.Method == "PUT"
	case "post-policy":
		return p.Method == "POST"
	}
	return true
}

func validityApplies(style, v string) bool {
	if v == "expired" {
		return style == "v2-presigned" || style == "v4-presigned" || style == "post-policy"
	}
	return true
}

func confusionApplies(style, c string, p probe) bool {
	if (c == "streaming") && style == "v4-header" && p.Method == "PUT" {
		// that combination *is* the v4-streaming style (with a body that is not chunk-encoded)
		return false
	}
	if c == "bearer" {
		// an extra Authorization header only makes sense when the style does not use that header
		return style == "none" || style == "v2-presigned" || style == "v4-presigned" || style == "post-policy"
	}
	return true
}

func otherBucket(b string) string {
	if b == "b1" {
		return "b1x"
	}
	return "b1"
}

func opBody(op string) []byte {
	switch op {
	case "PutObject", "PutObjectPart":
		return []byte("hello-c26")
	case "PutObjectTagging":
		return []byte(`<Tagging xmlns="http://s3.amazonaws.com/doc/2006-03-01/"><TagSet><Tag><Key>k</Key><Value>v</Value></Tag></TagSet></Tagging>`)
	case "CompleteMultipartUpload":
		return []byte(`<CompleteMultipartUpload><Part><PartNumber>1</PartNumber><ETag>"x"</ETag></Part></CompleteMultipartUpload>`)
	case "DeleteMultipleObjects":
		return []byte(`<Delete><Object><Key>o</Key></Object></Delete>`)
	}
	return nil
}

// build makes the wire request of a case.
func build(rt route, c Case, now time.Time) *s3sign.Req {
	mk := func(bucket string) *s3sign.Req {
		r := baseReq(rt.Probe, bucket, c.Src)
		if rt.Probe.Hdr != "form" {
			r.Body = opBody(rt.Op.Name)
		}
		switch c.Confusion {
		case "streaming":
			r.Set("X-Amz-Content-Sha256", s3sign.StreamingHash)
		case "streaming-lower":
			r.Set("X-Amz-Content-Sha256", strings.ToLower(s3sign.StreamingHash))
		case "form":
			if !strings.HasPrefix(r.Get("Content-Type"), "multipart/form-data") {
				r.Set("Content-Type", "multipart/form-data; boundary=xyz")
			}
		case "form-upper":
			r.Set("Content-Type", "Multipart/Form-Data; boundary=xyz")
		case "bearer":
			r.Set("Authorization", "Bearer abc.def.ghi")
		}
		return r
	}
	signBucket := c.Bucket
	if c.Validity == "other-bucket" {
		signBucket = otherBucket(c.Bucket)
	}
	r := mk(signBucket)
	if c.Style != "none" {
		id := signerByName(c.Signer)
		cred := s3sign.Cred{Access: id.Access, Secret: id.Secret}
		switch c.Validity {
		case "wrong-secret":
			cred.Secret = "X" + cred.Secret[1:]
		case "unknown-key":
			cred.Access = "AKNOBODY0000000000099"
		}
		t := now
		switch c.Style {
		case "v2-header":
			s3sign.SignV2Header(r, cred, t)
			if c.Validity == "tampered" {
				r.Set("Date", t.Add(time.Second).UTC().Format(http.TimeFormat))
			}
		case "v2-presigned":
			exp := t.Add(time.Hour)
			if c.Validity == "expired" {
				exp = t.Add(-time.Hour)
			}
			s3sign.PresignV2(r, cred, exp)
			if c.Validity == "tampered" {
				r.SetQuery("Expires", fmt.Sprint(exp.Unix()+1000))
			}
		case "v4-header":
			s3sign.SignV4Header(r, cred, t, region)
			if c.Validity == "tampered" {
				r.Set("X-Amz-Date", t.Add(time.Second).UTC().Format("20060102T150405Z"))
			}
		case "v4-presigned":
			st, d := t, time.Hour
			if c.Validity == "expired" {
				st, d = t.Add(-2*time.Hour), time.Minute
			}
			s3sign.PresignV4(r, cred, st, d, region)
			if c.Validity == "tampered" {
				r.SetQuery("X-Amz-Expires", "3601")
			}
		case "v4-streaming":
			s3sign.SignV4Streaming(r, cred, t, region, 4, -1)
			if c.Validity == "tampered" {
				r.Set("X-Amz-Date", t.Add(time.Second).UTC().Format("20060102T150405Z"))
			}
		case "post-policy":
			f := s3sign.PostForm{Bucket: c.Bucket, Key: "o", File: []byte("form-file"), Expiration: t.Add(time.Hour), PolicyBucket: signBucket}
			if c.Validity == "expired" {
				f.Expiration = t.Add(-time.Hour)
			}
			if c.Validity == "tampered" {
				f.TamperPolicy = true
			}
			s3sign.PostPolicyV4(r, cred, t, region, f)
		}
	}
	if signBucket != c.Bucket {
		// send the request signed for the other bucket to this bucket
		t := baseReq(rt.Probe, c.Bucket, c.Src)
		r.Host, r.Path, r.VhostBucket = t.Host, t.Path, t.VhostBucket
	}
	return r
}

// ---- execution ----------------------------------------------------------------------

type env struct {
	ff      *fakeFiler
	dir     string
	servers map[string]*server
	seq     int
	nviol   map[string]int
}

func (e *env) server(cfg string, domain bool) *server {
	return e.servers[fmt.Sprintf("%s/%v", cfg, domain)]
}

func setup(domains []bool) *env {
	mc.QuietGlog()
	ff, err := startFakeFiler()
	if err != nil {
		mc.Fatal("fake filer: %v", err)
	}
	e := &env{ff: ff, dir: mc.TempDir("c26"), servers: map[string]*server{}, nviol: map[string]int{}}
	for _, c := range iamCfgs {
		for _, d := range domains {
			e.servers[fmt.Sprintf("%s/%v", c.Name, d)] = newServer(ff, e.dir, c, d)
		}
	}
	return e
}

type outcome struct {
	Status int
	Code   string
	Ops    []BackendOp
	Body   string
}

func (e *env) exec(s *server, r *s3sign.Req) outcome {
	req, err := r.HTTP()
	if err != nil {
		mc.Fatal("cannot parse generated request: %v\n%s", err, r.Raw())
	}
	e.seq++
	seq := fmt.Sprint(e.seq)
	req.Header.Set("X-Verif-Seq", seq)
	e.ff.quiesce()
	e.ff.take()
	rec := httptest.NewRecorder()
	s.router.ServeHTTP(rec, req)
	e.ff.quiesce()
	o := outcome{Status: rec.Code, Ops: e.ff.take(), Body: rec.Body.String()}
	for _, op := range o.Ops {
		if op.Seq != "" && op.Seq != seq {
			mc.Fatal("harness not quiescent: backend op %+v of request #%s arrived during request #%s", op, op.Seq, seq)
		}
	}
	var er struct {
		Code string `xml:"Code"`
	}
	if rec.Code >= 300 && xml.Unmarshal(rec.Body.Bytes(), &er) == nil {
		o.Code = er.Code
	}
	return o
}

// expectation computed from the case's own features only.
func authorised(cfg iamCfg, rt route, c Case) (dst bool, src bool, sigOK bool, actions []string) {
	switch {
	case c.Style == "none":
		if !cfg.Has {
			return false, false, false, nil
		}
		actions = cfg.Anon
	case c.Validity == "valid":
		actions = signerByName(c.Signer).Actions
		sigOK = true
	default:
		return false, false, false, nil
	}
	if rt.Op.Service {
		return true, true, sigOK, actions
	}
	dst = permits(actions, rt.Op.Need, c.Bucket)
	src = true
	if rt.Op.SrcRead && c.Src != c.Bucket {
		// a copy whose source lies in another bucket additionally reads that bucket
		src = permits(actions, []string{"Read"}, c.Src)
	}
	return
}

func hasStreamingHeader(r *s3sign.Req) bool {
	return r.Method == "PUT" && r.Get("X-Amz-Content-Sha256") == s3sign.StreamingHash
}

func isFormPost(r *s3sign.Req) bool {
	return r.Method == "POST" && strings.Contains(r.Get("Content-Type"), "multipart/form-data")
}

type verdict struct {
	class string
	msg   string
}

// judge returns the violations of one executed case.
func judge(cfg iamCfg, rt route, c Case, r *s3sign.Req, o outcome) []verdict {
	var out []verdict
	touched := len(o.Ops) > 0
	if !touched {
		return nil
	}
	dst, src, sigOK, actions := authorised(cfg, rt, c)
	effect := "read"
	for _, op := range o.Ops {
		if op.Write {
			effect = "write"
		}
	}
	if !dst {
		var cause string
		what := "auth"
		if sigOK {
			what = "permission"
		}
		switch {
		case hasStreamingHeader(r):
			cause = "streaming-header-skips-" + what
		case isFormPost(r):
			cause = "form-post-skips-" + what
		case c.Style == "none":
			cause = "anonymous-not-permitted"
		case sigOK:
			cause = "permission-skipped:style=" + c.Style
		default:
			cause = "unauthenticated:style=" + c.Style + ":validity=" + c.Validity
		}
		if c.Confusion != "none" && !hasStreamingHeader(r) && !isFormPost(r) {
			cause += ":confusion=" + c.Confusion
		}
		out = append(out, verdict{cause + ":route=" + rt.Op.Name + ":effect=" + effect,
			fmt.Sprintf("backend touched (%s) by a request that is not authorised for %s on %s: status=%d ops=%s", effect, rt.Op.Name, c.Bucket, o.Status, mc.JS(o.Ops))})
		return out
	}
	if rt.Op.SrcRead && !src {
		for _, op := range o.Ops {
			if strings.HasPrefix(op.Path, "/buckets/"+c.Src+"/") {
				out = append(out, verdict{"copy-source-read-not-authorised:route=" + rt.Op.Name,
					fmt.Sprintf("identity %s (actions %v) has no Read on source bucket %s but the backend was asked for %s %s", c.Signer, actions, c.Src, op.Op, op.Path)})
				break
			}
		}
	}
	// every backend path must lie in the addressed bucket (or the copy source)
	if !rt.Op.Service {
		for _, op := range o.Ops {
			if op.Path == "" {
				continue
			}
			ok := op.Path == "/buckets/"+c.Bucket || strings.HasPrefix(op.Path, "/buckets/"+c.Bucket+"/")
			if rt.Op.SrcRead && strings.HasPrefix(op.Path, "/buckets/"+c.Src+"/") {
				ok = true
			}
			if !ok {
				out = append(out, verdict{"touches-foreign-path:route=" + rt.Op.Name, fmt.Sprintf("request for bucket %s made the backend see %s %s", c.Bucket, op.Op, op.Path)})
				break
			}
		}
	} else if o.Status == 200 {
		var lr struct {
			Buckets []struct {
				Name string `xml:"Name"`
			} `xml:"Buckets>Bucket"`
		}
		if xml.Unmarshal([]byte(o.Body), &lr) == nil {
			for _, b := range lr.Buckets {
				if !permits(actions, []string{"List"}, b.Name) {
					out = append(out, verdict{"list-buckets-shows-unlistable-bucket", fmt.Sprintf("identity with actions %v was shown bucket %s", actions, b.Name)})
					break
				}
			}
		}
	}
	return out
}

func (e *env) runCase(r *mc.Run, c Case) {
	s := e.server(c.Cfg, c.Domain)
	if s == nil {
		mc.Fatal("no server for %+v", c)
	}
	var rt *route
	for i := range s.routes {
		if s.routes[i].Name == c.Route {
			rt = &s.routes[i]
		}
	}
	if rt == nil {
		mc.Fatal("route %q not registered", c.Route)
	}
	// the route the router really dispatches the finished request to decides
	// which operation the oracle judges (a confusion header can change it)
	var eff *route
	once := func() (outcome, *s3sign.Req, []verdict) {
		req := build(*rt, c, time.Now())
		eff = s.dispatch(req)
		o := e.exec(s, req)
		if eff == nil {
			if len(o.Ops) > 0 {
				return o, req, []verdict{{"backend-touched-without-route", fmt.Sprintf("no registered route matches but the backend saw %s", mc.JS(o.Ops))}}
			}
			return o, req, nil
		}
		return o, req, judge(s.cfg, *eff, c, req, o)
	}
	o, req, vs := once()
	effName := "none"
	dst, src := false, false
	if eff != nil {
		effName = eff.Name
		dst, src, _, _ = authorised(s.cfg, *eff, c)
	}
	r.Case(fmt.Sprintf("%s|%s|%s|auth=%v|touched=%v", c.Style, c.Validity, c.Confusion, dst && src, len(o.Ops) > 0))
	r.Distinct(fmt.Sprintf("route=%s->%s|touched=%v", c.Route, effName, len(o.Ops) > 0))
	if len(o.Ops) > 0 {
		r.Add("requests_reaching_backend", 1)
		r.Sample("accepted:"+c.Style, w{"case": c, "request": strings.SplitN(string(req.Raw()), "\r\n", 2)[0], "status": o.Status, "backend": o.Ops})
	} else if c.Style == "none" || c.Validity != "valid" {
		r.Sample("rejected:"+c.Style, w{"case": c, "status": o.Status, "code": o.Code})
	}
	if dst && src && len(o.Ops) == 0 {
		r.Add("authorised_but_rejected", 1)
		r.Distinct(fmt.Sprintf("authorised-but-rejected|%s|%s|%s", effName, c.Style, o.Code))
		r.Add(fmt.Sprintf("authorised_but_rejected[%s,%d %s]", c.Style, o.Status, o.Code), 1)
	}
	for _, v := range vs {
		v := v
		e.nviol[v.class]++
		if e.nviol[v.class] > 3 {
			r.Violate(v.class, v.msg, c, nil) // only the first witnesses of a class are kept (and re-checked)
			continue
		}
		r.Violate(v.class, v.msg, c, func() bool {
			_, _, again := once()
			for _, a := range again {
				if a.class == v.class {
					return true
				}
			}
			return false
		})
	}
}

// selfTest: each credential style, used validly by the admin identity on its
// natural route, must get through to the backend - otherwise the signer (or the
// harness) is broken and the matrix would be vacuous.
func (e *env) selfTest() {
	s := e.server("noanon", false)
	natural := map[string]string{"v2-header": "GetObject", "v2-presigned": "GetObject", "v4-header": "GetObject",
		"v4-presigned": "GetObject", "v4-streaming": "PutObject", "post-policy": "PostPolicy"}
	for _, st := range styles[1:] {
		c := Case{Cfg: "noanon", Route: natural[st], Bucket: "b1", Src: "b1", Style: st, Validity: "valid", Signer: "admin", Confusion: "none"}
		var rt *route
		for i := range s.routes {
			if s.routes[i].Name == c.Route {
				rt = &s.routes[i]
			}
		}
		if rt == nil {
			mc.Fatal("self-test: route %s not found among walked routes", c.Route)
		}
		req := build(*rt, c, time.Now())
		o := e.exec(s, req)
		if len(o.Ops) == 0 {
			mc.Fatal("self-test: a valid %s request of the admin identity on %s was rejected (status %d %s): the signer and the server disagree, the matrix would be vacuous\n%s", st, c.Route, o.Status, o.Code, req.Raw())
		}
	}
}

func enumerate(e *env, domains []bool, thorough bool) []Case {
	var cases []Case
	cfgs := iamCfgs
	if !thorough {
		cfgs = iamCfgs[:2]
	}
	for _, d := range domains {
		for _, cfg := range cfgs {
			s := e.server(cfg.Name, d)
			for _, rt := range s.routes {
				if d && rt.Probe.Host == "path" {
					continue // path-style routes are covered by the run without a domain
				}
				bks := buckets
				if rt.Op.Service {
					bks = buckets[:1]
				}
				for _, b := range bks {
					srcs := []string{""}
					if rt.Op.SrcRead {
						srcs = []string{b, otherBucket(b)}
					}
					for _, src := range srcs {
						for _, st := range styles {
							if !styleApplies(st, rt.Probe) {
								continue
							}
							for _, conf := range confusions(thorough) {
								if !confusionApplies(st, conf, rt.Probe) {
									continue
								}
								if st == "none" {
									cases = append(cases, Case{cfg.Name, d, rt.Name, b, src, st, "valid", "", conf})
									continue
								}
								for _, v := range validities {
									if !validityApplies(st, v) || (v == "other-bucket" && rt.Op.Service) {
										continue
									}
									for _, id := range signers {
										cases = append(cases, Case{cfg.Name, d, rt.Name, b, src, st, v, id.Name, conf})
									}
								}
							}
						}
					}
				}
			}
		}
	}
	return cases
}

func run(r *mc.Run) {
	mc.QuietGlog()
	domains := []bool{false}
	if r.Thorough() {
		domains = []bool{false, true}
	}
	if r.Replay != "" {
		var raw map[string]interface{}
		if err := r.ReplayCase(&raw); err != nil {
			mc.Fatal("replay: %v", err)
		}
		if _, isIam := raw["doc"]; isIam {
			var ic iamCase
			r.ReplayCase(&ic)
			iamOne(r, ic)
			return
		}
		var c Case
		if err := r.ReplayCase(&c); err != nil {
			mc.Fatal("replay: %v", err)
		}
		e := setup([]bool{false, true})
		defer os.RemoveAll(e.dir)
		e.runCase(r, c)
		return
	}
	r.Assume("the backend is a recording fake filer that answers every lookup with a directory entry (bucket b1x does not exist) and every write with success; whether a request is let through does not depend on those answers except where a handler looks something up before deciding")
	r.Assume("operation -> acceptable action sets are the lenient reading of the SeaweedFS action names (Read, Write, List, Tagging, Admin); see opTable in checks/c26/c26.go")
	r.Assume("requests are parsed with net/http.ReadRequest from wire bytes and handed to the router's ServeHTTP; TLS and connection handling are out of scope")
	r.Parallel("matrix", 16, func(shard, n int) {
		e := setup(domains)
		defer os.RemoveAll(e.dir)
		e.selfTest()
		cases := enumerate(e, domains, r.Thorough())
		if shard == 0 {
			s := e.server("noanon", domains[len(domains)-1])
			var names []string
			for _, rt := range s.routes {
				names = append(names, rt.Name+" <= "+rt.Probe.Sig())
			}
			r.Set("routes_walked", names)
			r.Set("matrix_cases", len(cases))
		}
		for i, c := range cases {
			if i%n != shard {
				continue
			}
			if !r.Begin(c) {
				continue
			}
			e.runCase(r, c)
		}
	})
	iamPolicies(r)
}
