package c26

import (
	"context"
	"fmt"
	"io"
	"net"
	"net/http"
	"runtime"
	"strings"
	"sync"
	"time"

	"google.golang.org/grpc"

	"github.com/chrislusf/seaweedfs/weed/pb/filer_pb"
)

// BackendOp is one call that reached the (fake) filer.
type BackendOp struct {
	Proto string `json:"proto"` // http | grpc
	Op    string `json:"op"`    // HTTP method or gRPC method name
	Path  string `json:"path"`
	Write bool   `json:"write"`
	Seq   string `json:"-"` // X-Verif-Seq header forwarded by the gateway (http only)
}

// fakeFiler records everything it is asked to do and answers harmlessly.
type fakeFiler struct {
	filer_pb.UnimplementedSeaweedFilerServer
	mu       sync.Mutex
	ops      []BackendOp
	inflight int
	httpAddr string
	grpcAddr string
}

func (f *fakeFiler) rec(proto, op, path string, write bool) {
	f.mu.Lock()
	f.ops = append(f.ops, BackendOp{proto, op, path, write, ""})
	f.mu.Unlock()
}

func (f *fakeFiler) enter(n int) {
	f.mu.Lock()
	f.inflight += n
	f.mu.Unlock()
}

// quiesce waits until no HTTP handler of the fake filer is running.
func (f *fakeFiler) quiesce() {
	for i := 0; ; i++ {
		f.mu.Lock()
		n := f.inflight
		f.mu.Unlock()
		if n == 0 {
			return
		}
		if i > 200000 {
			panic("fake filer does not quiesce")
		}
		runtime.Gosched()
		if i > 100 {
			time.Sleep(50 * time.Microsecond)
		}
	}
}

func (f *fakeFiler) take() []BackendOp {
	f.mu.Lock()
	defer f.mu.Unlock()
	o := f.ops
	f.ops = nil
	return o
}

// missing: the one thing the fake filer does not have is bucket b1x.
func missing(path string) bool {
	return path == "/buckets/b1x"
}

func startFakeFiler() (*fakeFiler, error) {
	f := &fakeFiler{}
	hl, err := net.Listen("tcp", "127.0.0.1:0")
	if err != nil {
		return nil, err
	}
	gl, err := net.Listen("tcp", "127.0.0.1:0")
	if err != nil {
		return nil, err
	}
	f.httpAddr = hl.Addr().String()
	f.grpcAddr = gl.Addr().String()
	go http.Serve(hl, http.HandlerFunc(f.serveHTTP))
	gs := grpc.NewServer()
	filer_pb.RegisterSeaweedFilerServer(gs, f)
	go gs.Serve(gl)
	return f, nil
}

func (f *fakeFiler) serveHTTP(w http.ResponseWriter, r *http.Request) {
	f.enter(1)
	defer f.enter(-1)
	write := r.Method != "GET" && r.Method != "HEAD"
	f.mu.Lock()
	f.ops = append(f.ops, BackendOp{"http", r.Method, r.URL.Path, write, r.Header.Get("X-Verif-Seq")})
	f.mu.Unlock()
	io.Copy(io.Discard, r.Body)
	switch r.Method {
	case "GET", "HEAD":
		w.Header().Set("Content-Length", "4")
		w.Header().Set("ETag", "\"00000000\"")
		w.WriteHeader(200)
		if r.Method == "GET" {
			w.Write([]byte("data"))
		}
	case "PUT", "POST":
		w.Header().Set("Content-Type", "application/json")
		w.WriteHeader(201)
		w.Write([]byte(`{"name":"o","size":4}`))
	case "DELETE":
		w.WriteHeader(204)
	default:
		w.WriteHeader(405)
	}
}

var errNF = fmt.Errorf("%s", filer_pb.ErrNotFound.Error())

func (f *fakeFiler) LookupDirectoryEntry(ctx context.Context, q *filer_pb.LookupDirectoryEntryRequest) (*filer_pb.LookupDirectoryEntryResponse, error) {
	f.rec("grpc", "LookupDirectoryEntry", q.Directory+"/"+q.Name, false)
	if missing(q.Directory + "/" + q.Name) {
		return nil, errNF
	}
	return &filer_pb.LookupDirectoryEntryResponse{Entry: &filer_pb.Entry{
		Name: q.Name, IsDirectory: true, Attributes: &filer_pb.FuseAttributes{Mtime: 1, Crtime: 1, FileMode: 0770},
	}}, nil
}

func (f *fakeFiler) ListEntries(q *filer_pb.ListEntriesRequest, s filer_pb.SeaweedFiler_ListEntriesServer) error {
	f.rec("grpc", "ListEntries", q.Directory, false)
	if strings.Count(q.Directory, "/") == 1 { // the buckets directory: one level below the root
		for _, b := range []string{"b1", "b1x"} {
			if err := s.Send(&filer_pb.ListEntriesResponse{Entry: &filer_pb.Entry{Name: b, IsDirectory: true,
				Attributes: &filer_pb.FuseAttributes{Mtime: 1, Crtime: 1}}}); err != nil {
				return err
			}
		}
		return nil
	}
	return s.Send(&filer_pb.ListEntriesResponse{Entry: &filer_pb.Entry{Name: "o", Attributes: &filer_pb.FuseAttributes{Mtime: 1, Crtime: 1, FileSize: 4}}})
}

func (f *fakeFiler) CreateEntry(ctx context.Context, q *filer_pb.CreateEntryRequest) (*filer_pb.CreateEntryResponse, error) {
	n := ""
	if q.Entry != nil {
		n = q.Entry.Name
	}
	f.rec("grpc", "CreateEntry", q.Directory+"/"+n, true)
	return &filer_pb.CreateEntryResponse{}, nil
}

func (f *fakeFiler) UpdateEntry(ctx context.Context, q *filer_pb.UpdateEntryRequest) (*filer_pb.UpdateEntryResponse, error) {
	n := ""
	if q.Entry != nil {
		n = q.Entry.Name
	}
	f.rec("grpc", "UpdateEntry", q.Directory+"/"+n, true)
	return &filer_pb.UpdateEntryResponse{}, nil
}

func (f *fakeFiler) AppendToEntry(ctx context.Context, q *filer_pb.AppendToEntryRequest) (*filer_pb.AppendToEntryResponse, error) {
	f.rec("grpc", "AppendToEntry", q.Directory+"/"+q.EntryName, true)
	return &filer_pb.AppendToEntryResponse{}, nil
}

func (f *fakeFiler) DeleteEntry(ctx context.Context, q *filer_pb.DeleteEntryRequest) (*filer_pb.DeleteEntryResponse, error) {
	f.rec("grpc", "DeleteEntry", q.Directory+"/"+q.Name, true)
	return &filer_pb.DeleteEntryResponse{}, nil
}

func (f *fakeFiler) AtomicRenameEntry(ctx context.Context, q *filer_pb.AtomicRenameEntryRequest) (*filer_pb.AtomicRenameEntryResponse, error) {
	f.rec("grpc", "AtomicRenameEntry", q.OldDirectory+"/"+q.OldName, true)
	return &filer_pb.AtomicRenameEntryResponse{}, nil
}

func (f *fakeFiler) AssignVolume(ctx context.Context, q *filer_pb.AssignVolumeRequest) (*filer_pb.AssignVolumeResponse, error) {
	f.rec("grpc", "AssignVolume", q.Path, true)
	return &filer_pb.AssignVolumeResponse{Error: "fake filer"}, nil
}

func (f *fakeFiler) LookupVolume(ctx context.Context, q *filer_pb.LookupVolumeRequest) (*filer_pb.LookupVolumeResponse, error) {
	f.rec("grpc", "LookupVolume", strings.Join(q.VolumeIds, ","), false)
	return &filer_pb.LookupVolumeResponse{}, nil
}

func (f *fakeFiler) CollectionList(ctx context.Context, q *filer_pb.CollectionListRequest) (*filer_pb.CollectionListResponse, error) {
	f.rec("grpc", "CollectionList", "", false)
	return &filer_pb.CollectionListResponse{}, nil
}

func (f *fakeFiler) DeleteCollection(ctx context.Context, q *filer_pb.DeleteCollectionRequest) (*filer_pb.DeleteCollectionResponse, error) {
	f.rec("grpc", "DeleteCollection", "/buckets/"+q.Collection, true)
	return &filer_pb.DeleteCollectionResponse{}, nil
}

func (f *fakeFiler) Statistics(ctx context.Context, q *filer_pb.StatisticsRequest) (*filer_pb.StatisticsResponse, error) {
	f.rec("grpc", "Statistics", "", false)
	return &filer_pb.StatisticsResponse{}, nil
}

func (f *fakeFiler) GetFilerConfiguration(ctx context.Context, q *filer_pb.GetFilerConfigurationRequest) (*filer_pb.GetFilerConfigurationResponse, error) {
	f.rec("grpc", "GetFilerConfiguration", "", false)
	return &filer_pb.GetFilerConfigurationResponse{DirBuckets: "/buckets"}, nil
}

// SubscribeMetadata is opened by NewS3ApiServer itself (not by a request): it is
// not recorded and simply stays open.
func (f *fakeFiler) SubscribeMetadata(q *filer_pb.SubscribeMetadataRequest, s filer_pb.SeaweedFiler_SubscribeMetadataServer) error {
	<-s.Context().Done()
	return nil
}

func (f *fakeFiler) SubscribeLocalMetadata(q *filer_pb.SubscribeMetadataRequest, s filer_pb.SeaweedFiler_SubscribeLocalMetadataServer) error {
	<-s.Context().Done()
	return nil
}

func (f *fakeFiler) KeepConnected(s filer_pb.SeaweedFiler_KeepConnectedServer) error {
	f.rec("grpc", "KeepConnected", "", false)
	return nil
}

func (f *fakeFiler) LocateBroker(ctx context.Context, q *filer_pb.LocateBrokerRequest) (*filer_pb.LocateBrokerResponse, error) {
	f.rec("grpc", "LocateBroker", q.Resource, false)
	return &filer_pb.LocateBrokerResponse{}, nil
}

func (f *fakeFiler) KvGet(ctx context.Context, q *filer_pb.KvGetRequest) (*filer_pb.KvGetResponse, error) {
	f.rec("grpc", "KvGet", string(q.Key), false)
	return &filer_pb.KvGetResponse{}, nil
}

func (f *fakeFiler) KvPut(ctx context.Context, q *filer_pb.KvPutRequest) (*filer_pb.KvPutResponse, error) {
	f.rec("grpc", "KvPut", string(q.Key), true)
	return &filer_pb.KvPutResponse{}, nil
}
