package c26

import (
	"encoding/json"
	"fmt"
	"net/url"
	"strings"

	"verif/mc"

	"github.com/chrislusf/seaweedfs/weed/iamapi"
	"github.com/chrislusf/seaweedfs/weed/pb/iam_pb"
	"github.com/chrislusf/seaweedfs/weed/s3api"
)

// IAM clause: a policy document never grants more (action, bucket) pairs than
// its Allow statements name.  Seam: the real iamapi PutUserPolicy (JSON parsing
// + GetActions + appending to the identity) and the real Identity.canDo.

type stmt struct {
	Effect   string   `json:"Effect"`
	Action   []string `json:"Action"`
	Resource []string `json:"Resource"`
}

type iamCase struct {
	Doc string `json:"doc"`
}

var (
	iamEffects = []string{"Allow", "Deny"}
	iamActions = []string{"s3:Get*", "s3:Put*", "s3:List*", "s3:*", "s3:Tagging*", "s3:Delete*", "*", "Get*", "iam:Get*", "s3:get*"}
	iamRes     = []string{"arn:aws:s3:::b1/*", "arn:aws:s3:::*", "*", "arn:aws:s3:::b1", "arn:aws:s3:::b1x/*", "arn:aws:s3:::b1/pre/*",
		"arn:aws:s3:::b1*/*", "arn:aws:s3::b1/*", "arn:aws:iam:::b1/*", "b1/*", "arn:aws:s3:::", "arn:aws:s3:::/*", "arn:aws:s3:::*/*"}
	iamBuckets  = []string{"b1", "b1x", "b2"}
	seaweedActs = []string{"Read", "Write", "List", "Tagging", "Admin"}
)

// actionNames: which SeaweedFS actions an IAM action pattern can be said to name
// (lenient: AWS action names are case-insensitive, Delete* is a write).
func actionNames(p string) []string {
	lp := strings.ToLower(p)
	switch lp {
	case "*", "s3:*":
		return seaweedActs
	case "s3:get*":
		return []string{"Read"}
	case "s3:put*", "s3:delete*":
		return []string{"Write"}
	case "s3:list*":
		return []string{"List"}
	case "s3:tagging*":
		return []string{"Tagging"}
	}
	return nil
}

// resourceNames: does the resource name the whole bucket b?
func resourceNames(res, b string) bool {
	if res == "*" {
		return true
	}
	const pfx = "arn:aws:s3:::"
	if !strings.HasPrefix(res, pfx) {
		return false
	}
	rest := res[len(pfx):]
	bucketPat := rest
	if i := strings.Index(rest, "/"); i >= 0 {
		bucketPat = rest[:i]
		if rest[i:] != "/*" {
			return false // names a part of the bucket only
		}
	}
	if bucketPat == "" {
		return false
	}
	if strings.HasSuffix(bucketPat, "*") {
		return strings.HasPrefix(b, bucketPat[:len(bucketPat)-1])
	}
	return bucketPat == b
}

func named(doc []stmt) map[string]bool {
	out := map[string]bool{}
	for _, s := range doc {
		if s.Effect != "Allow" {
			continue
		}
		for _, a := range s.Action {
			for _, act := range actionNames(a) {
				for _, res := range s.Resource {
					for _, b := range iamBuckets {
						if resourceNames(res, b) {
							out[act+"/"+b] = true
							if act == "Admin" {
								for _, x := range seaweedActs {
									out[x+"/"+b] = true
								}
							}
						}
					}
				}
			}
		}
	}
	return out
}

func docSig(doc []stmt) string {
	var parts []string
	for _, s := range doc {
		parts = append(parts, s.Effect+"["+strings.Join(s.Action, ",")+"]["+strings.Join(s.Resource, ",")+"]")
	}
	return strings.Join(parts, "+")
}

func iamEval(docJSON string) (granted []string, actions []string, err error) {
	cfg := &iam_pb.S3ApiConfiguration{Identities: []*iam_pb.Identity{{Name: "u"}, {Name: "other"}}}
	v := url.Values{}
	v.Set("UserName", "u")
	v.Set("PolicyName", "p")
	v.Set("PolicyDocument", docJSON)
	if _, err = (&iamapi.IamApiServer{}).PutUserPolicy(cfg, v); err != nil {
		return nil, nil, err
	}
	actions = cfg.Identities[0].Actions
	if len(cfg.Identities[1].Actions) > 0 {
		granted = append(granted, "other-user-got-actions")
	}
	id := &s3api.Identity{Name: "u"}
	for _, a := range actions {
		id.Actions = append(id.Actions, s3api.Action(a))
	}
	for _, b := range iamBuckets {
		for _, a := range seaweedActs {
			if id.CanDoV(s3api.Action(a), b) {
				granted = append(granted, a+"/"+b)
			}
		}
	}
	return
}

func iamOne(r *mc.Run, c iamCase) {
	var pd struct {
		Statement []stmt `json:"Statement"`
	}
	if err := json.Unmarshal([]byte(c.Doc), &pd); err != nil {
		mc.Fatal("iam case: %v", err)
	}
	granted, actions, err := iamEval(c.Doc)
	nm := named(pd.Statement)
	over := ""
	for _, g := range granted {
		if !nm[g] {
			over = g
			break
		}
	}
	r.Case(fmt.Sprintf("iam|stmts=%d|err=%v|granted=%d|named=%d|over=%v", len(pd.Statement), err != nil, len(granted), len(nm), over != ""))
	if over != "" {
		r.Violate("iam-overgrant:"+over+":doc="+docSig(pd.Statement),
			fmt.Sprintf("policy %s gives identity actions %v which allow %s, not named by any Allow statement", c.Doc, actions, over), c,
			func() bool {
				g2, _, _ := iamEval(c.Doc)
				for _, g := range g2 {
					if g == over {
						return true
					}
				}
				return false
			})
	}
}

func iamPolicies(r *mc.Run) {
	acts := iamActions
	ress := iamRes
	if r.Quick() {
		acts = acts[:7]
		ress = ress[:9]
	}
	mkDoc := func(ss []stmt) string {
		b, _ := json.Marshal(map[string]interface{}{"Version": "2012-10-17", "Statement": ss})
		return string(b)
	}
	lists := func(alpha []string) [][]string {
		var out [][]string
		for _, a := range alpha {
			out = append(out, []string{a})
		}
		for _, a := range alpha {
			for _, b := range alpha {
				if a != b {
					out = append(out, []string{a, b})
				}
			}
		}
		return out
	}
	n := 0
	// one statement, action and resource lists of length 1..2
	al, rl := lists(acts), lists(ress)
	for _, e := range iamEffects {
		for _, a := range al {
			for _, rs := range rl {
				iamOne(r, iamCase{mkDoc([]stmt{{e, a, rs}})})
				n++
			}
		}
	}
	// two statements, single action and resource each
	var singles []stmt
	for _, e := range iamEffects {
		for _, a := range acts {
			for _, rs := range ress {
				singles = append(singles, stmt{e, []string{a}, []string{rs}})
			}
		}
	}
	for _, s1 := range singles {
		for _, s2 := range singles {
			iamOne(r, iamCase{mkDoc([]stmt{s1, s2})})
			n++
		}
	}
	r.Set("iam_policy_documents", n)
	r.Sample("iam", w{"doc": mkDoc([]stmt{{"Allow", []string{"s3:Get*"}, []string{"arn:aws:s3:::b1/*"}}}), "granted": "Read/b1"})
}
