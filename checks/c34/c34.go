// Package c34: volume server access control with signed tokens.
//
// Real code driven: the real volume server HTTP handlers (PostHandler,
// DeleteHandler, GetOrHeadHandler -> maybeCheckJwtAuthorization -> security.
// GetJwt/DecodeJwt) of an in-process volume server, over loopback TCP.
//
// Space (complete products, nothing sampled):
//
//	S1  key configuration {none, write, read, both} x method {POST, PUT, DELETE,
//	    GET, HEAD} x canonical request form of the target file (5) x token (40
//	    hand-built tokens: valid HS256/384/512, no exp, expired, nbf, other file /
//	    cookie / volume, formatting variants, other key, the other configured key,
//	    empty key, alg none / RS256 / ES256 / lower-case, signature damage, payload
//	    swapped under a valid signature, malformed, missing) x carrier {Bearer,
//	    BEARER, bearer, ?jwt=} x query {none, type=replicate}
//	S2  every URL path of 1..3 segments over a small segment alphabet (vid, fid,
//	    "vid,fid", other fid, file names, sub-file suffix, other volume) x method x
//	    4 tokens x the three configurations with a key.
//
// Oracle (effect based, from the statement): with the relevant key configured, a
// request may change (write/delete) or return (read) a needle only if it
// carries a good token -- HMAC, signed with exactly that key, not expired, well
// formed -- whose fid claim names that needle (volume, key + sub-file delta,
// cookie).  "Touched" is decided by reading every needle of a small key
// universe and the .dat/.idx sizes straight from the store before and after each
// request.  In addition a plainly valid token on the plain "vid,fid" form (and
// the "_1" sub-file form, which the statement names) must be accepted.
package c34

import (
	"crypto/hmac"
	"crypto/sha256"
	"crypto/sha512"
	"encoding/base64"
	"encoding/json"
	"fmt"
	"hash"
	"sort"
	"strconv"
	"strings"
	"time"

	"verif/checks/vhutil"
	"verif/cluster"
	"verif/mc"

	"github.com/chrislusf/seaweedfs/weed/storage"
	"github.com/chrislusf/seaweedfs/weed/storage/needle"
	"github.com/chrislusf/seaweedfs/weed/storage/types"
)

func Main() {
	mc.Main("C34", "exploration",
		"complete product: 4 key configurations x 5 methods x 5 canonical request forms x 40 tokens x 4 carriers x 2 queries, plus every URL path of <=3 segments over a segment alphabet x 5 methods x 4 tokens x 3 keyed configurations; effect-based oracle (store snapshot before/after every request)",
		run)
}

type w = map[string]interface{}

const (
	vid  = 3
	vid2 = 4
)

type file struct {
	name   string
	vid    uint32
	key    uint64
	cookie uint32
	data   string
}

var (
	fA  = file{"A", vid, 0x01, 0x637037d6, "DATA-OF-A"}
	fA1 = file{"A_1", vid, 0x02, 0x637037d6, "DATA-OF-A-SUB1"} // sub-file 1 of A (same cookie)
	fB  = file{"B", vid, 0x20, 0xaabbccdd, "DATA-OF-B"}
	fN  = file{"N", vid, 0x30, 0x12345678, ""} // does not exist
	fV4 = file{"V4A", vid2, 0x01, 0x637037d6, "DATA-OF-A-IN-VOLUME-4"}
)

var baseline = []file{fA, fA1, fB, fV4}
var universe = []struct {
	vid uint32
	key uint64
}{{vid, 1}, {vid, 2}, {vid, 3}, {vid, 0x20}, {vid, 0x21}, {vid, 0x30}, {vid, 0x31}, {vid2, 1}, {vid2, 2}, {vid2, 0x20}}

func keyCookie(f file) string { return fmt.Sprintf("%02x%08x", f.key, f.cookie) }
func fidOf(f file) string     { return fmt.Sprintf("%d,%s", f.vid, keyCookie(f)) }

// ---- configurations ----------------------------------------------------------

type config struct {
	Name     string
	WriteKey string
	ReadKey  string
}

var configs = []config{
	{"none", "", ""},
	{"write", "wkey-1-secret", ""},
	{"read", "", "rkey-2-secret"},
	{"both", "wkey-1-secret", "rkey-2-secret"},
}

// ---- tokens --------------------------------------------------------------------

type tokenSpec struct {
	Name   string
	Alg    string // header alg
	Claim  string // symbolic fid claim: A, B, N, ... or "-" (no fid member) / "#" (numeric)
	Exp    int    // seconds relative to now; 0 = no exp
	Nbf    int    // seconds relative to now; 0 = none
	Key    string // "req" (the key the request needs), "other", "cross" (the other configured key), "empty"
	Damage string // "", sig-trunc, sig-flip, sig-empty, swap (payload replaced under a signature made for B), garbage, two, four, dot, space
}

var tokens = []tokenSpec{
	{Name: "missing"},
	{Name: "valid", Alg: "HS256", Claim: "A", Exp: 60, Key: "req"},
	{Name: "valid-noexp", Alg: "HS256", Claim: "A", Key: "req"},
	{Name: "valid-hs384", Alg: "HS384", Claim: "A", Exp: 60, Key: "req"},
	{Name: "valid-hs512", Alg: "HS512", Claim: "A", Exp: 60, Key: "req"},
	{Name: "valid-exp-1h", Alg: "HS256", Claim: "A", Exp: 3600, Key: "req"},
	{Name: "expired-1h", Alg: "HS256", Claim: "A", Exp: -3600, Key: "req"},
	{Name: "expired-5s", Alg: "HS256", Claim: "A", Exp: -5, Key: "req"},
	{Name: "nbf-1h", Alg: "HS256", Claim: "A", Exp: 7200, Nbf: 3600, Key: "req"},
	{Name: "other-file", Alg: "HS256", Claim: "B", Exp: 60, Key: "req"},
	{Name: "other-file-new", Alg: "HS256", Claim: "N", Exp: 60, Key: "req"},
	{Name: "other-cookie", Alg: "HS256", Claim: "Ax", Exp: 60, Key: "req"},
	{Name: "other-volume", Alg: "HS256", Claim: "V4A", Exp: 60, Key: "req"},
	{Name: "claim-subfile", Alg: "HS256", Claim: "A_1", Exp: 60, Key: "req"},
	{Name: "claim-no-leading-zero", Alg: "HS256", Claim: "Anz", Exp: 60, Key: "req"},
	{Name: "claim-uppercase", Alg: "HS256", Claim: "Aup", Exp: 60, Key: "req"},
	{Name: "claim-slash", Alg: "HS256", Claim: "Aslash", Exp: 60, Key: "req"},
	{Name: "claim-vid-only", Alg: "HS256", Claim: "vidonly", Exp: 60, Key: "req"},
	{Name: "claim-empty", Alg: "HS256", Claim: "empty", Exp: 60, Key: "req"},
	{Name: "claim-missing", Alg: "HS256", Claim: "-", Exp: 60, Key: "req"},
	{Name: "claim-number", Alg: "HS256", Claim: "#", Exp: 60, Key: "req"},
	{Name: "other-key", Alg: "HS256", Claim: "A", Exp: 60, Key: "other"},
	{Name: "cross-key", Alg: "HS256", Claim: "A", Exp: 60, Key: "cross"},
	{Name: "empty-key", Alg: "HS256", Claim: "A", Exp: 60, Key: "empty"},
	{Name: "alg-none", Alg: "none", Claim: "A", Exp: 60, Key: "req", Damage: "sig-empty"},
	{Name: "alg-None", Alg: "None", Claim: "A", Exp: 60, Key: "req", Damage: "sig-empty"},
	{Name: "alg-none-signed", Alg: "none", Claim: "A", Exp: 60, Key: "req"},
	{Name: "alg-rs256", Alg: "RS256", Claim: "A", Exp: 60, Key: "req"},
	{Name: "alg-es256", Alg: "ES256", Claim: "A", Exp: 60, Key: "req"},
	{Name: "alg-hs256-lower", Alg: "hs256", Claim: "A", Exp: 60, Key: "req"},
	{Name: "alg-absent", Alg: "", Claim: "A", Exp: 60, Key: "req"},
	{Name: "sig-truncated", Alg: "HS256", Claim: "A", Exp: 60, Key: "req", Damage: "sig-trunc"},
	{Name: "sig-bitflip", Alg: "HS256", Claim: "A", Exp: 60, Key: "req", Damage: "sig-flip"},
	{Name: "sig-empty", Alg: "HS256", Claim: "A", Exp: 60, Key: "req", Damage: "sig-empty"},
	{Name: "payload-swapped", Alg: "HS256", Claim: "A", Exp: 60, Key: "req", Damage: "swap"},
	{Name: "garbage", Damage: "garbage"},
	{Name: "two-parts", Alg: "HS256", Claim: "A", Exp: 60, Key: "req", Damage: "two"},
	{Name: "four-parts", Alg: "HS256", Claim: "A", Exp: 60, Key: "req", Damage: "four"},
	{Name: "trailing-dot", Alg: "HS256", Claim: "A", Exp: 60, Key: "req", Damage: "dot"},
	{Name: "leading-space", Alg: "HS256", Claim: "A", Exp: 60, Key: "req", Damage: "space"},
}

func tokenByName(n string) tokenSpec {
	for _, t := range tokens {
		if t.Name == n {
			return t
		}
	}
	mc.Fatal("unknown token %q", n)
	return tokenSpec{}
}

func b64(b []byte) string { return base64.RawURLEncoding.EncodeToString(b) }

func claimString(sym string) (s string, isString bool, present bool) {
	switch sym {
	case "A":
		return fidOf(fA), true, true
	case "B":
		return fidOf(fB), true, true
	case "N":
		return fidOf(fN), true, true
	case "V4A":
		return fidOf(fV4), true, true
	case "Ax":
		return fmt.Sprintf("%d,%02x%08x", fA.vid, fA.key, fA.cookie^0x1), true, true
	case "A_1":
		return fidOf(fA) + "_1", true, true
	case "Anz":
		return fmt.Sprintf("%d,%x%08x", fA.vid, fA.key, fA.cookie), true, true
	case "Aup":
		return strings.ToUpper(fidOf(fA)), true, true
	case "Aslash":
		return fmt.Sprintf("%d/%s", fA.vid, keyCookie(fA)), true, true
	case "vidonly":
		return strconv.Itoa(vid), true, true
	case "empty":
		return "", true, true
	case "#":
		return "", false, true
	}
	return "", false, false
}

func signWith(alg string, key []byte, input string) []byte {
	var h func() hash.Hash
	switch strings.ToUpper(alg) {
	case "HS384":
		h = sha512.New384
	case "HS512":
		h = sha512.New
	default:
		h = sha256.New
	}
	m := hmac.New(h, key)
	m.Write([]byte(input))
	return m.Sum(nil)
}

// build returns the token string and the key it was signed with.
func (t tokenSpec) build(reqKey, crossKey string, now time.Time) string {
	if t.Name == "missing" {
		return ""
	}
	if t.Damage == "garbage" {
		return "abc"
	}
	key := reqKey
	switch t.Key {
	case "other":
		key = "some-other-key"
	case "cross":
		key = crossKey
		if key == "" {
			key = "rkey-2-secret-not-configured"
		}
	case "empty":
		key = ""
	}
	mk := func(claimSym string) (string, string) {
		hdr := w{"typ": "JWT"}
		if t.Alg != "" {
			hdr["alg"] = t.Alg
		}
		cl := w{}
		if s, isStr, present := claimString(claimSym); present {
			if isStr {
				cl["fid"] = s
			} else {
				cl["fid"] = 3
			}
		}
		if t.Exp != 0 {
			cl["exp"] = now.Unix() + int64(t.Exp)
		}
		if t.Nbf != 0 {
			cl["nbf"] = now.Unix() + int64(t.Nbf)
		}
		hb, _ := json.Marshal(hdr)
		cb, _ := json.Marshal(cl)
		in := b64(hb) + "." + b64(cb)
		return in, b64(signWith(t.Alg, []byte(key), in))
	}
	in, sig := mk(t.Claim)
	switch t.Damage {
	case "sig-trunc":
		sig = sig[:len(sig)-4]
	case "sig-flip":
		c := sig[len(sig)-2]
		r := byte('A')
		if c == 'A' {
			r = 'B'
		}
		sig = sig[:len(sig)-2] + string(r) + sig[len(sig)-1:]
	case "sig-empty":
		sig = ""
	case "swap":
		_, sigB := mk("B") // a genuine signature, made for a token that names B
		sig = sigB
	case "two":
		return in
	case "four":
		return in + "." + sig + "." + sig
	case "dot":
		return in + "." + sig + "."
	case "space":
		return " " + in + "." + sig
	}
	return in + "." + sig
}

// good reports whether the token is "an unexpired HMAC token signed with that
// key" and well formed; maybe = the statement does not say (nbf in the future).
func (t tokenSpec) good() (good, maybe bool) {
	if t.Name == "missing" || t.Damage != "" {
		return false, false
	}
	switch t.Alg {
	case "HS256", "HS384", "HS512":
	default:
		return false, false
	}
	if t.Key != "req" {
		return false, false
	}
	if t.Exp < 0 {
		return false, false
	}
	if t.Nbf > 0 {
		return true, true
	}
	return true, false
}

// named reports whether the claim names needle (v,key,cookie): volume, key
// (+ sub-file delta 0..15) and cookie, read with an independent parser.
func (t tokenSpec) names(v uint32, key uint64, cookie uint32) bool {
	s, isStr, present := claimString(t.Claim)
	if !present || !isStr {
		return false
	}
	cv, ck, cc, ok := parseFid(s)
	if !ok {
		return false
	}
	return cv == v && cc == cookie && key >= ck && key < ck+16
}

// parseFid: "<vid>,<keyhex><cookie 8 hex>[_<delta>]", case-insensitive hex.
func parseFid(s string) (v uint32, key uint64, cookie uint32, ok bool) {
	i := strings.IndexByte(s, ',')
	if i <= 0 {
		return
	}
	vv, err := strconv.ParseUint(s[:i], 10, 32)
	if err != nil {
		return
	}
	rest := s[i+1:]
	delta := uint64(0)
	if j := strings.LastIndexByte(rest, '_'); j > 0 {
		d, err := strconv.ParseUint(rest[j+1:], 10, 64)
		if err != nil {
			return
		}
		delta, rest = d, rest[:j]
	}
	if len(rest) <= 8 || len(rest) > 24 {
		return
	}
	k, err := strconv.ParseUint(rest[:len(rest)-8], 16, 64)
	if err != nil {
		return
	}
	c, err := strconv.ParseUint(rest[len(rest)-8:], 16, 32)
	if err != nil {
		return
	}
	return uint32(vv), k + delta, uint32(c), true
}

// ---- cases -----------------------------------------------------------------------

type kase struct {
	Cfg     string `json:"cfg"`
	Method  string `json:"method"`
	Path    string `json:"path"` // symbolic: {A} {B} {N} are replaced by key+cookie hex
	Token   string `json:"token"`
	Carrier string `json:"carrier"` // Bearer | BEARER | bearer | query
	Query   string `json:"query"`   // "" | type=replicate
}

var canonicalPaths = []string{"/3,{A}", "/3/{A}", "/3/{A}/n.txt", "/3,{A}.txt", "/3,{A}_1"}
var methods = []string{"POST", "PUT", "DELETE", "GET", "HEAD"}
var carriers = []string{"Bearer", "BEARER", "bearer", "query"}
var queries = []string{"", "type=replicate"}
var s2tokens = []string{"valid", "other-file", "missing", "other-key"}

func segAlphabet(r *mc.Run) []string {
	if r.Quick() {
		return []string{"3", "{A}", "3,{A}", "3,{B}", "n.txt"}
	}
	return []string{"3", "{A}", "3,{A}", "3,{B}", "n.txt", "{B}", "3,{A}.txt", "3,{A}_1", "x,{B}", "4,{A}"}
}

func concretePath(sym string) string {
	p := strings.ReplaceAll(sym, "{A}", keyCookie(fA))
	p = strings.ReplaceAll(p, "{B}", keyCookie(fB))
	p = strings.ReplaceAll(p, "{N}", keyCookie(fN))
	return p
}

// pathFamily is the stable, narrow description of a path's shape used in classes.
func pathFamily(sym string) string {
	segs := strings.Split(strings.TrimPrefix(sym, "/"), "/")
	kind := func(i int, s string) string {
		k := "name"
		switch {
		case s == "3" || s == "4":
			k = "vid"
		case strings.Contains(s, ",") && i == 2:
			return "name,fid" // a third segment is a file name; this one contains a comma followed by a key+cookie
		case strings.Contains(s, ","):
			k = "vid,fid"
			if !strings.HasPrefix(s, "3,") && !strings.HasPrefix(s, "4,") {
				k = "x,fid"
			}
		case strings.HasPrefix(s, "{"):
			k = "fid"
		}
		if strings.Contains(s, "_") {
			k += "_n"
		}
		if strings.Contains(s, ".") && k != "name" {
			k += ".ext"
		}
		return k
	}
	var ks []string
	for i, s := range segs {
		ks = append(ks, kind(i, s))
	}
	return strings.Join(ks, "/")
}

// ---- environment: one cluster per configuration -------------------------------------

type env struct {
	cfg   config
	c     *cluster.Cluster
	store *storage.Store
	etag  map[string]string // etag -> file name
	n     int
}

func newEnv(cfg config) *env {
	c := cluster.MustNew(cluster.Options{WriteKey: cfg.WriteKey, ReadKey: cfg.ReadKey})
	c.MustAddVolume(vid, "", "000", "")
	c.MustAddVolume(vid2, "", "000", "")
	e := &env{cfg: cfg, c: c, store: c.Servers[0].Store, etag: map[string]string{}}
	e.restore()
	for _, f := range baseline {
		n := new(needle.Needle)
		n.Id = types.Uint64ToNeedleId(f.key)
		if _, err := e.store.ReadVolumeNeedle(needle.VolumeId(f.vid), n, nil); err != nil {
			mc.Fatal("baseline read %s: %v", f.name, err)
		}
		if _, dup := e.etag[n.Etag()]; dup {
			mc.Fatal("baseline etags collide")
		}
		e.etag[n.Etag()] = f.name
	}
	return e
}

func (e *env) close() { e.c.Close() }

type snapshot map[string]vhutil.NeedleSnap

func (e *env) snap() (snapshot, string) {
	s := snapshot{}
	for _, u := range universe {
		s[fmt.Sprintf("%d/%x", u.vid, u.key)] = vhutil.Snap(e.store, u.vid, u.key)
	}
	sizes := ""
	for _, v := range []uint32{vid, vid2} {
		d, i, _ := e.store.GetVolume(needle.VolumeId(v)).FileStat()
		sizes += fmt.Sprintf("%d:%d/%d ", v, d, i)
	}
	return s, sizes
}

// restore brings every needle of the universe back to the baseline through the store API.
func (e *env) restore() {
	want := map[string]file{}
	for _, f := range baseline {
		want[fmt.Sprintf("%d/%x", f.vid, f.key)] = f
	}
	for _, u := range universe {
		k := fmt.Sprintf("%d/%x", u.vid, u.key)
		cur := vhutil.Snap(e.store, u.vid, u.key)
		f, should := want[k]
		if should && cur.Found && cur.Cookie == f.cookie && cur.Data == f.data && cur.Name == "" && cur.Mime == "" {
			continue
		}
		if cur.Found {
			n := new(needle.Needle)
			n.Id = types.Uint64ToNeedleId(u.key)
			n.Cookie = types.Uint32ToCookie(cur.Cookie)
			if _, err := e.store.DeleteVolumeNeedle(needle.VolumeId(u.vid), n); err != nil {
				mc.Fatal("restore delete %s: %v", k, err)
			}
		}
		if should {
			n := new(needle.Needle)
			n.Id = types.Uint64ToNeedleId(f.key)
			n.Cookie = types.Uint32ToCookie(f.cookie)
			n.Data = []byte(f.data)
			n.Checksum = needle.NewCRC(n.Data)
			n.LastModified = 1600000000
			n.SetHasLastModifiedDate()
			if _, err := e.store.WriteVolumeNeedle(needle.VolumeId(f.vid), n, false); err != nil {
				mc.Fatal("restore write %s: %v", k, err)
			}
		}
	}
}

type verdict struct {
	class string // "" = holds
	msg   string
	obs   string // observation class for Case()
	hist  string // coarse outcome for the evidence histogram
}

// runCase executes one request and applies the oracle.
func (e *env) runCase(k kase) verdict {
	e.restore()
	t := tokenByName(k.Token)
	isWrite := k.Method == "POST" || k.Method == "PUT" || k.Method == "DELETE"
	reqKey, crossKey := e.cfg.ReadKey, e.cfg.WriteKey
	if isWrite {
		reqKey, crossKey = e.cfg.WriteKey, e.cfg.ReadKey
	}
	// with no key configured for this class of request a token is still sent,
	// signed with the key that would be configured in "both"
	signKey := reqKey
	if signKey == "" {
		if isWrite {
			signKey = configs[3].WriteKey
		} else {
			signKey = configs[3].ReadKey
		}
	}
	tok := t.build(signKey, crossKey, time.Now())

	url := "http://" + e.c.Servers[0].Url() + concretePath(k.Path)
	q := k.Query
	hdr := map[string]string{}
	if tok != "" {
		if k.Carrier == "query" {
			if q != "" {
				q += "&"
			}
			q += "jwt=" + strings.ReplaceAll(tok, " ", "%20")
		} else {
			hdr["Authorization"] = k.Carrier + " " + tok
		}
	}
	if q != "" {
		url += "?" + q
	}
	e.n++
	payload := fmt.Sprintf("EVIL-PAYLOAD-%s", k.Method)
	before, sizeBefore := e.snap()
	var resp vhutil.Resp
	switch k.Method {
	case "POST":
		body, ct := vhutil.Multipart(vhutil.Part{FileName: "up.txt", Mime: "text/plain", Data: []byte(payload)})
		resp = vhutil.Do("POST", url, hdr, body, ct)
	case "PUT":
		resp = vhutil.Do("PUT", url, hdr, []byte(payload), "text/plain")
	default:
		resp = vhutil.Do(k.Method, url, hdr, nil, "")
	}
	after, sizeAfter := e.snap()

	status := "err"
	if resp.Err == nil {
		status = strconv.Itoa(resp.Status)
	}
	success := resp.Err == nil && resp.Status >= 200 && resp.Status < 400
	keyed := reqKey != ""
	good, maybe := t.good()

	// which needles were touched (writes) / returned (reads)
	var touched []string
	for _, u := range universe {
		id := fmt.Sprintf("%d/%x", u.vid, u.key)
		if before[id] != after[id] {
			touched = append(touched, id)
		}
	}
	sort.Strings(touched)
	obs := fmt.Sprintf("%s|%s|keyed=%v|good=%v|status=%s|touched=%d", k.Method, pathFamily(k.Path), keyed, good, status, len(touched))
	fam := pathFamily(k.Path)
	hist := fmt.Sprintf("%s keyed=%v goodtoken=%v status=%s touched=%d", k.Method, keyed, good, status, len(touched))
	op := map[string]string{"POST": "upload", "PUT": "upload", "DELETE": "delete", "GET": "read", "HEAD": "read"}[k.Method]

	if len(touched) == 0 && sizeBefore != sizeAfter {
		if keyed && !(good && isWrite) {
			return verdict{"unauthorized-write-outside-universe|" + k.Method + "|path=" + fam + "|token=" + k.Token,
				fmt.Sprintf("volume files changed (%s -> %s) although no tracked needle did; status %s", sizeBefore, sizeAfter, status), obs, hist}
		}
		// an authorised request that appended something not in the universe (e.g. tombstone of an absent key): not judged
	}
	if !keyed {
		return verdict{"", "", obs, hist} // the statement only speaks about configured keys
	}
	for _, id := range touched {
		var vv uint32
		var kk uint64
		fmt.Sscanf(id, "%d/%x", &vv, &kk)
		// cookie of the needle that was affected: the new state for creations/overwrites, the old one for deletions
		ck := after[id].Cookie
		if !after[id].Found {
			ck = before[id].Cookie
		}
		if !isWrite {
			return verdict{"read-request-changed-data|" + k.Method + "|path=" + fam, fmt.Sprintf("%s changed needle %s", k.Method, id), obs, hist}
		}
		if !good || !t.names(vv, kk, ck) {
			what := "token-" + k.Token
			if good {
				what = "good-token-for-another-file"
			}
			return verdict{fmt.Sprintf("%s-touches-needle|%s|path=%s", what, op, fam),
				fmt.Sprintf("%s %s with token %q (good=%v, claim %s) answered %s and changed needle %s: before %+v after %+v",
					k.Method, concretePath(k.Path), k.Token, good, t.Claim, status, id, before[id], after[id]), obs, hist}
		}
	}
	if !isWrite && success && resp.Status != 304 {
		// identify what was returned
		et := strings.Trim(resp.Header.Get("Etag"), `"`)
		which, known := e.etag[et]
		if !known {
			for _, f := range baseline {
				if f.data != "" && strings.Contains(string(resp.Body), f.data) {
					which, known = f.name, true
				}
			}
		}
		if !known {
			if !good {
				return verdict{"read-success-without-good-token|" + k.Method + "|path=" + fam + "|token=" + k.Token,
					fmt.Sprintf("status %s etag %q body %q", status, et, trunc(string(resp.Body), 80)), obs, hist}
			}
		} else {
			var f file
			for _, b := range baseline {
				if b.name == which {
					f = b
				}
			}
			if !good || !t.names(f.vid, f.key, f.cookie) {
				what := "token-" + k.Token
				if good {
					what = "good-token-for-another-file"
				}
				return verdict{fmt.Sprintf("%s-reads-needle|%s|path=%s", what, op, fam),
					fmt.Sprintf("%s %s with token %q (good=%v, claim %s) answered %s with the content/etag of %s", k.Method, concretePath(k.Path), k.Token, good, t.Claim, status, which), obs, hist}
			}
		}
	}
	if !isWrite && resp.Status == 304 && !good {
		return verdict{"read-success-without-good-token|" + k.Method + "|path=" + fam + "|token=" + k.Token, "304 without a good token", obs, hist}
	}
	// liveness on the two forms the statement names: a plainly valid token is accepted
	if good && !maybe && t.Claim == "A" && (t.Name == "valid" || t.Name == "valid-noexp") && (k.Path == "/3,{A}" || k.Path == "/3,{A}_1") {
		if !success {
			return verdict{"valid-token-rejected|" + k.Method + "|path=" + fam + "|carrier=" + k.Carrier,
				fmt.Sprintf("%s %s with a valid token answered %s %q", k.Method, concretePath(k.Path), status, trunc(string(resp.Body), 120)), obs, hist}
		}
		target := "3/1"
		if k.Path == "/3,{A}_1" {
			target = "3/2"
		}
		if isWrite && (len(touched) != 1 || touched[0] != target) {
			return verdict{"valid-token-accepted-without-effect|" + k.Method + "|path=" + fam,
				fmt.Sprintf("answered %s but touched %v", status, touched), obs, hist}
		}
	}
	return verdict{"", "", obs, hist}
}

func trunc(s string, n int) string {
	if len(s) > n {
		return s[:n]
	}
	return s
}

// ---- driver -----------------------------------------------------------------------

func enumerate(r *mc.Run, cfg config, f func(k kase)) {
	// S1
	for _, m := range methods {
		for _, p := range canonicalPaths {
			for _, t := range tokens {
				for _, c := range carriers {
					if t.Name == "missing" && c != "Bearer" {
						continue
					}
					for _, q := range queries {
						f(kase{cfg.Name, m, p, t.Name, c, q})
					}
				}
			}
		}
	}
	if cfg.Name == "none" {
		return
	}
	// S2
	al := segAlphabet(r)
	mc.Sequences(len(al), 1, 3, func(seq []int) bool {
		var segs []string
		for _, i := range seq {
			segs = append(segs, al[i])
		}
		p := "/" + strings.Join(segs, "/")
		for _, m := range methods {
			for _, t := range s2tokens {
				f(kase{cfg.Name, m, p, t, "Bearer", ""})
			}
		}
		return true
	})
}

func run(r *mc.Run) {
	r.Assume("only the HTTP interface of the volume server is covered (the statement's uploads, deletes and reads); the gRPC/TCP services carry no token and are assumed to be protected by transport security")
	r.Assume("an accepted request is one answered 2xx/3xx; 'touched' is decided by store-level reads of 10 tracked needles of 2 volumes plus the .dat/.idx sizes")
	r.Assume("tokens whose nbf lies in the future are not judged (the statement only speaks of expiry)")
	if r.Replay != "" {
		var k kase
		if err := r.ReplayCase(&k); err != nil {
			mc.Fatal("replay: %v", err)
		}
		for _, cfg := range configs {
			if cfg.Name == k.Cfg {
				e := newEnv(cfg)
				defer e.close()
				v := e.runCase(k)
				r.Case(v.obs)
				if v.class != "" {
					r.Violate(v.class, v.msg, k, nil)
				}
				return
			}
		}
		mc.Fatal("replay: unknown cfg %q", k.Cfg)
	}
	r.Parallel("cfg", len(configs), func(shard, n int) {
		cfg := configs[shard]
		e := newEnv(cfg)
		defer e.close()
		enumerate(r, cfg, func(k kase) {
			if !r.Begin(k) {
				return
			}
			v := e.runCase(k)
			r.Case(v.obs)
			r.Add("outcome:"+v.hist, 1)
			if v.class != "" {
				r.Violate(v.class, v.msg, k, func() bool { return e.runCase(k).class == v.class })
			} else if k.Token == "valid" || k.Token == "other-file" {
				r.Sample("case", w{"case": k, "obs": v.obs})
			}
		})
	})
	r.Set("tokens", len(tokens))
	r.Set("segment_alphabet", segAlphabet(r))
}
