// Package c17: file content is the last-writer-wins overlay of its chunks.
//
// Every chunk list over a small offset/size space, with distinct modification
// times in every list order, is pushed through the real interval merge
// (NonOverlappingVisibleIntervals / ViewFromChunks), the real ChunkReadAt, the
// real CompactFileChunks and the real manifest code (mergeIntoManifest /
// doMaybeManifestize / ResolveChunkManifest over an in-process HTTP blob
// source), for every read window, and compared byte for byte with a reference
// overlay (paint the chunks in mtime order into a zeroed array).
package c17

import (
	"bytes"
	"fmt"
	"io"
	"math"
	"os"
	"runtime/pprof"
	"sort"
	"strings"
	"sync"
	"sync/atomic"
	"time"

	"verif/checks/flib"
	"verif/mc"

	"github.com/chrislusf/seaweedfs/weed/filer"
	"github.com/chrislusf/seaweedfs/weed/pb/filer_pb"
	"github.com/chrislusf/seaweedfs/weed/storage/needle"
	"github.com/chrislusf/seaweedfs/weed/wdclient"
)

func Main() {
	mc.Main("C17", "exploration",
		"all chunk lists of <=N chunks (offset 0..6 x size 1..4, distinct mtimes, list orders), every read window [a,b) within [0,fileSize+1], fileSize in {extent, extent+2}; seams: ViewFromChunks, ChunkReadAt.ReadAt (3 cache modes), CompactFileChunks, manifest variants (flat/nested/mixed, batch 2,3) resolved over HTTP, StreamContent; oracle: byte overlay by mtime, zero for holes; distinct = (domain, list features, outcome)",
		run)
}

const prefill = 0xAA

type chunkSpec struct {
	Off  int `json:"off"`
	Size int `json:"size"`
	Rank int `json:"rank"` // position in modification-time order; mtime = rank+1 (no ties by construction)
}

type caseT struct {
	Domain string      `json:"domain"` // plain | manifest | http
	Chunks []chunkSpec `json:"chunks"` // in list order
}

type finding struct {
	class string
	msg   string
}

// fset keeps the first finding of each class of one case (messages are built lazily:
// a defect that shows in every window must not cost a Sprintf per window).
type fset struct {
	list []finding
}

func (f *fset) add(class string, msg func() string) {
	for _, x := range f.list {
		if x.class == class {
			return
		}
	}
	f.list = append(f.list, finding{class, msg()})
}

// ---- chunk identities and data ----------------------------------------------------

const maxRank = 6

var (
	fidOf  [maxRank][8]string // [rank][size]
	dataOf = map[string][]byte{}
)

func init() {
	for k := 0; k < maxRank; k++ {
		for s := 1; s < 8; s++ {
			fid := needle.NewFileId(needle.VolumeId(3), uint64((k+1)*16+s), 0x1234abcd).String()
			fidOf[k][s] = fid
			d := make([]byte, s)
			for j := range d {
				d[j] = byte(0x10*(k+1) + j) // never 0x00 and never 0xAA
			}
			dataOf[fid] = d
		}
	}
}

func buildChunks(specs []chunkSpec) []*filer_pb.FileChunk {
	out := make([]*filer_pb.FileChunk, len(specs))
	for i, s := range specs {
		out[i] = &filer_pb.FileChunk{
			FileId: fidOf[s.Rank][s.Size],
			Offset: int64(s.Off),
			Size:   uint64(s.Size),
			Mtime:  int64(s.Rank + 1),
		}
	}
	return out
}

func clone(c []*filer_pb.FileChunk) []*filer_pb.FileChunk {
	return append([]*filer_pb.FileChunk(nil), c...)
}

func extent(specs []chunkSpec) int {
	e := 0
	for _, s := range specs {
		if s.Off+s.Size > e {
			e = s.Off + s.Size
		}
	}
	return e
}

// oracle: paint chunks in increasing mtime into a zeroed array of the given length.
func oracle(specs []chunkSpec, length int) []byte {
	byRank := append([]chunkSpec(nil), specs...)
	sort.Slice(byRank, func(i, j int) bool { return byRank[i].Rank < byRank[j].Rank })
	out := make([]byte, length)
	for _, s := range byRank {
		d := dataOf[fidOf[s.Rank][s.Size]]
		for j := 0; j < s.Size && s.Off+j < length; j++ {
			out[s.Off+j] = d[j]
		}
	}
	return out
}

// features of a list, from the oracle's point of view.
func features(specs []chunkSpec) string {
	ext := extent(specs)
	want := oracle(specs, ext)
	hole, overlap, shadow, split := false, false, false, false
	cover := make([]int, ext)
	for _, s := range specs {
		for j := 0; j < s.Size; j++ {
			cover[s.Off+j]++
		}
	}
	for i := 0; i < ext; i++ {
		if cover[i] == 0 {
			hole = true
		}
		if cover[i] > 1 {
			overlap = true
		}
	}
	for _, s := range specs {
		d := dataOf[fidOf[s.Rank][s.Size]]
		runs, in := 0, false
		for j := 0; j < s.Size; j++ {
			vis := want[s.Off+j] == d[j]
			if vis && !in {
				runs++
			}
			in = vis
		}
		if runs == 0 {
			shadow = true
		}
		if runs > 1 {
			split = true
		}
	}
	return fmt.Sprintf("n=%d|hole=%t|overlap=%t|shadow=%t|split=%t", len(specs), hole, overlap, shadow, split)
}

// ---- observation helpers -----------------------------------------------------------

// paint the views into an array of the given length filled with 0; returns a
// description of any structural problem (unknown chunk, slice outside the chunk).
func derive(views []*filer.ChunkView, length int) ([]byte, string) {
	out := make([]byte, length)
	for _, v := range views {
		d, ok := dataOf[v.FileId]
		if !ok {
			return out, "view of unknown chunk " + v.FileId
		}
		if v.Offset < 0 || v.Offset+int64(v.Size) > int64(len(d)) {
			return out, fmt.Sprintf("view [%d,+%d) outside chunk %s of %d bytes", v.Offset, v.Size, v.FileId, len(d))
		}
		for j := int64(0); j < int64(v.Size); j++ {
			p := v.LogicOffset + j
			if p < 0 || p >= int64(length) {
				return out, fmt.Sprintf("view at logic offset %d size %d outside [0,%d)", v.LogicOffset, v.Size, length)
			}
			out[p] = d[v.Offset+j]
		}
	}
	return out, ""
}

func viewsString(views []*filer.ChunkView) string {
	var sb strings.Builder
	for _, v := range views {
		fmt.Fprintf(&sb, "{%s chunk[%d,+%d) at %d}", v.FileId, v.Offset, v.Size, v.LogicOffset)
	}
	return sb.String()
}

func noLookup(fileId string) ([]string, error) {
	return nil, fmt.Errorf("unexpected lookup of %s", fileId)
}

// memCache is the map-backed chunk cache handed to ChunkReadAt.
type memCache struct {
	mu     sync.RWMutex
	data   map[string][]byte
	slices bool // answer GetChunkSlice from the map (otherwise always miss)
	frozen bool // pre-populated and shared: SetChunk is a no-op
}

func (m *memCache) GetChunk(fileId string, minSize uint64) []byte {
	m.mu.RLock()
	d := m.data[fileId]
	m.mu.RUnlock()
	if uint64(len(d)) < minSize {
		return nil
	}
	return d
}

func (m *memCache) GetChunkSlice(fileId string, offset, length uint64) []byte {
	if !m.slices {
		return nil
	}
	m.mu.RLock()
	d := m.data[fileId]
	m.mu.RUnlock()
	if d == nil || offset+length > uint64(len(d)) {
		return nil
	}
	return d[offset : offset+length]
}

func (m *memCache) SetChunk(fileId string, data []byte) {
	if m.frozen {
		return
	}
	m.mu.Lock()
	m.data[fileId] = append([]byte(nil), data...)
	m.mu.Unlock()
}

var (
	cacheWhole  = &memCache{data: dataOf, slices: false, frozen: true} // mode "whole": slice miss, whole-chunk hit
	cacheSlices = &memCache{data: dataOf, slices: true, frozen: true}  // mode "slice": slice hit
)

// readAll issues ReadAt for every window [a,b) of [0,fileSize+1] on ONE reader (so that
// the reader's last-chunk memo is carried from read to read, as in a file handle).
func readAll(tag string, views []*filer.ChunkView, lookup wdclient.LookupFileIdFunctionType, cache *memCache, want []byte, fileSize int, fs *fset, reads *int64) {
	reader := filer.NewChunkReaderAtFromClient(lookup, views, cache, int64(fileSize))
	defer reader.Close()
	for a := 0; a <= fileSize+1; a++ {
		for b := a + 1; b <= fileSize+1; b++ {
			buf := make([]byte, b-a)
			for i := range buf {
				buf[i] = prefill
			}
			n, err, pn := safeReadAt(reader, buf, int64(a))
			*reads++
			if pn != nil {
				fs.add("readat-panic:"+tag, func() string {
					return fmt.Sprintf("ReadAt [%d,%d) fileSize %d panics: %v", a, b, fileSize, pn)
				})
				continue
			}
			if err != nil && err != io.EOF {
				fs.add("readat-error:" + tag, func() string { return fmt.Sprintf("ReadAt [%d,%d) fileSize %d: %v", a, b, fileSize, err) })
				continue
			}
			wantN := 0
			if a < fileSize {
				wantN = b - a
				if b > fileSize {
					wantN = fileSize - a
				}
			}
			if n != wantN {
				fs.add("readat-count-mismatch:" + tag, func() string { return fmt.Sprintf("ReadAt [%d,%d) fileSize %d returned n=%d err=%v, want n=%d", a, b, fileSize, n, err, wantN) })
				continue
			}
			holeDirty, other := false, false
			for i := 0; i < n; i++ {
				w := want[a+i]
				switch {
				case buf[i] == w:
				case w == 0 && buf[i] == prefill:
					holeDirty = true
				default:
					other = true
				}
			}
			if other {
				fs.add("readat-content-mismatch:" + tag, func() string { return fmt.Sprintf("ReadAt [%d,%d) fileSize %d returned % x, want % x", a, b, fileSize, buf[:n], want[a:a+n]) })
			} else if holeDirty {
				fs.add("readat-hole-bytes-not-zeroed-in-caller-buffer", func() string { return fmt.Sprintf("ReadAt [%d,%d) fileSize %d into a buffer pre-filled with aa returned n=%d and % x, want % x (hole bytes are counted but never written)", a, b, fileSize, n, buf[:n], want[a:a+n]) })
			}
		}
	}
}

func safeReadAt(reader *filer.ChunkReadAt, buf []byte, off int64) (n int, err error, pn interface{}) {
	defer func() {
		if p := recover(); p != nil {
			pn = p
		}
	}()
	n, err = reader.ReadAt(buf, off)
	return
}

// guarded runs one domain function and turns a panic of the code under test into a finding.
func guarded(domain string, fn func([]chunkSpec, *counters) []finding) func([]chunkSpec, *counters) []finding {
	return func(specs []chunkSpec, cnt *counters) (out []finding) {
		defer func() {
			if p := recover(); p != nil {
				out = append(out, finding{"panic:" + domain, fmt.Sprintf("panic: %v", p)})
			}
		}()
		return fn(specs, cnt)
	}
}

// checkViews compares the content painted from views with the oracle on [lo,hi).
func checkViews(what string, views []*filer.ChunkView, want []byte, lo, hi int, fs *fset) {
	got, bad := derive(views, len(want))
	if bad != "" {
		fs.add(what + "-malformed-view", func() string { return fmt.Sprintf("%s window [%d,%d): %s; views %s", what, lo, hi, bad, viewsString(views)) })
		return
	}
	for _, v := range views {
		if v.LogicOffset < int64(lo) || v.LogicOffset+int64(v.Size) > int64(hi) {
			fs.add(what + "-view-outside-window", func() string { return fmt.Sprintf("%s window [%d,%d): views %s", what, lo, hi, viewsString(views)) })
			return
		}
	}
	if !bytes.Equal(got[lo:hi], want[lo:hi]) {
		fs.add(what + "-content-mismatch", func() string { return fmt.Sprintf("%s window [%d,%d): views give % x, want % x; views %s", what, lo, hi, got[lo:hi], want[lo:hi], viewsString(views)) })
	}
}

// ---- domain: plain lists --------------------------------------------------------------

type counters struct {
	reads, windows int64
}

func runPlain(specs []chunkSpec, cnt *counters) []finding {
	fs := &fset{}
	ext := extent(specs)
	want := oracle(specs, ext+3)
	chunks := buildChunks(specs)

	// whole-file views, as a file handle builds them
	views := filer.ViewFromChunks(noLookup, clone(chunks), 0, math.MaxInt64)
	checkViews("views", views, want, 0, ext, fs)

	// every window through ViewFromChunks
	for a := 0; a <= ext+1; a++ {
		for b := a + 1; b <= ext+1; b++ {
			v := filer.ViewFromChunks(noLookup, clone(chunks), int64(a), int64(b-a))
			cnt.windows++
			checkViews("window-views", v, want, a, b, fs)
		}
	}

	// every window through the reader, two cache behaviours, two file sizes
	readAll("whole-chunk-cache", views, noLookup, cacheWhole, want, ext, fs, &cnt.reads)
	readAll("slice-cache", views, noLookup, cacheSlices, want, ext, fs, &cnt.reads)
	readAll("slice-cache", views, noLookup, cacheSlices, want, ext+2, fs, &cnt.reads)

	// compaction keeps the content
	compacted, garbage := filer.CompactFileChunks(noLookup, clone(chunks))
	if len(compacted)+len(garbage) != len(chunks) {
		fs.add("compact-loses-chunks", func() string { return fmt.Sprintf("compacted %d + garbage %d != %d", len(compacted), len(garbage), len(chunks)) })
	}
	cviews := filer.ViewFromChunks(noLookup, clone(compacted), 0, math.MaxInt64)
	checkViews("compacted-views", cviews, want, 0, ext, fs)
	return fs.list
}

// ---- domain: manifests ----------------------------------------------------------------

var (
	blob       *flib.BlobServer
	blobOnce   sync.Once
	manifestNo int64
)

func blobs() *flib.BlobServer {
	blobOnce.Do(func() { blob = flib.NewPipeBlobServer() })
	return blob
}

// saver returns a SaveDataAsChunkFunctionType storing the manifest blob in the
// in-process blob server, and the list of ids it created.
func saver(created *[]string) filer.SaveDataAsChunkFunctionType {
	return func(reader io.Reader, name string, offset int64) (*filer_pb.FileChunk, string, string, error) {
		data, err := io.ReadAll(reader)
		if err != nil {
			return nil, "", "", err
		}
		no := atomic.AddInt64(&manifestNo, 1)
		fid := needle.NewFileId(needle.VolumeId(7), uint64(no), 0x0badcafe).String()
		blobs().Put(fid, data)
		*created = append(*created, fid)
		return &filer_pb.FileChunk{FileId: fid, Offset: offset, Size: uint64(len(data)), Mtime: 1000}, "", "", nil
	}
}

type variant struct {
	name   string
	chunks []*filer_pb.FileChunk
}

// variants builds every manifest arrangement of the list (fresh chunk structs for each,
// because mergeIntoManifest rewrites the file id representation of its inputs).
func variants(specs []chunkSpec, save filer.SaveDataAsChunkFunctionType) ([]variant, error) {
	n := len(specs)
	var out []variant
	for _, batch := range []int{2, 3} {
		if n < batch {
			continue
		}
		x, err := filer.DoMaybeManifestizeV(save, buildChunks(specs), batch)
		if err != nil {
			return nil, err
		}
		out = append(out, variant{fmt.Sprintf("manifestize-batch%d", batch), x})
	}
	// one flat manifest over the whole list
	{
		m, err := filer.MergeIntoManifestV(save, buildChunks(specs))
		if err != nil {
			return nil, err
		}
		out = append(out, variant{"flat", []*filer_pb.FileChunk{m}})
	}
	for k := 1; k <= n; k++ {
		// nested: outer manifest over [inner manifest over the first k] + the rest
		c := buildChunks(specs)
		inner, err := filer.MergeIntoManifestV(save, c[:k])
		if err != nil {
			return nil, err
		}
		outer, err := filer.MergeIntoManifestV(save, append([]*filer_pb.FileChunk{inner}, c[k:]...))
		if err != nil {
			return nil, err
		}
		out = append(out, variant{fmt.Sprintf("nested-%d", k), []*filer_pb.FileChunk{outer}})
		if k < n {
			// mixed: a manifest next to plain chunks, in both list positions
			c1 := buildChunks(specs)
			m1, err := filer.MergeIntoManifestV(save, c1[:k])
			if err != nil {
				return nil, err
			}
			out = append(out, variant{fmt.Sprintf("mixed-first-%d", k), append([]*filer_pb.FileChunk{m1}, c1[k:]...)})
			c2 := buildChunks(specs)
			m2, err := filer.MergeIntoManifestV(save, c2[k:])
			if err != nil {
				return nil, err
			}
			out = append(out, variant{fmt.Sprintf("mixed-last-%d", k), append(clone(c2[:k]), m2)})
		}
	}
	return out, nil
}

func runManifest(specs []chunkSpec, cnt *counters) []finding {
	fs := &fset{}
	var created []string
	save := saver(&created)
	defer func() {
		for _, id := range created {
			blobs().Delete(id)
		}
	}()
	lookup := blobs().Lookup
	ext := extent(specs)
	want := oracle(specs, ext+3)
	vs, err := variants(specs, save)
	if err != nil {
		return []finding{{"manifest-build-error", err.Error()}}
	}
	for _, v := range vs {
		tag := "manifest-" + strings.TrimRight(v.name, "-0123456789")
		views := filer.ViewFromChunks(lookup, clone(v.chunks), 0, math.MaxInt64)
		f1 := &fset{}
		checkViews(tag+"-views", views, want, 0, ext, f1)
		for a := 0; a <= ext+1; a++ {
			for b := a + 1; b <= ext+1; b++ {
				w := filer.ViewFromChunks(lookup, clone(v.chunks), int64(a), int64(b-a))
				cnt.windows++
				checkViews(tag+"-window-views", w, want, a, b, f1)
			}
		}
		readAll(tag+"-slice-cache", views, lookup, cacheSlices, want, ext, f1, &cnt.reads)

		// the write path's pipeline: separate manifests, compact the plain chunks, manifestize, re-attach
		manifestChunks, plain := filer.SeparateManifestChunks(clone(v.chunks))
		compacted, _ := filer.CompactFileChunks(lookup, plain)
		again, err := filer.DoMaybeManifestizeV(save, compacted, 2)
		if err != nil {
			f1.add("manifest-build-error", func() string { return err.Error() })
		} else {
			final := append(again, manifestChunks...)
			pv := filer.ViewFromChunks(lookup, clone(final), 0, math.MaxInt64)
			checkViews(tag+"-compact-pipeline-views", pv, want, 0, ext, f1)
		}
		for _, f := range f1.list {
			f := f
			fs.add(f.class, func() string { return "variant " + v.name + ": " + f.msg })
		}
	}
	return fs.list
}

// ---- domain: http (cold cache fetch, StreamContent) ---------------------------------------

type lookupHolder struct{ fn wdclient.LookupFileIdFunctionType }

func (l lookupHolder) GetLookupFileIdFunction() wdclient.LookupFileIdFunctionType { return l.fn }

var dataBlobsOnce sync.Once

func runHTTP(specs []chunkSpec, cnt *counters) []finding {
	fs := &fset{}
	dataBlobsOnce.Do(func() {
		for fid, d := range dataOf {
			blobs().Put(fid, d)
		}
	})
	lookup := blobs().Lookup
	ext := extent(specs)
	want := oracle(specs, ext+3)
	chunks := buildChunks(specs)
	views := filer.ViewFromChunks(lookup, clone(chunks), 0, math.MaxInt64)

	// cold cache: chunks are fetched over HTTP and put into the cache by the reader
	for _, extra := range []int{0, 2} {
		cold := &memCache{data: map[string][]byte{}, slices: true}
		readAll("cold-cache-http-fetch", views, lookup, cold, want, ext+extra, fs, &cnt.reads)
	}

	// StreamContent for every window of [0, extent+2]
	for a := 0; a <= ext+2; a++ {
		for b := a + 1; b <= ext+2; b++ {
			var out bytes.Buffer
			err := filer.StreamContent(lookupHolder{lookup}, &out, clone(chunks), int64(a), int64(b-a))
			cnt.windows++
			if err != nil {
				fs.add("stream-content-error", func() string { return fmt.Sprintf("StreamContent [%d,%d): %v", a, b, err) })
				continue
			}
			if bytes.Equal(out.Bytes(), want[a:b]) {
				continue
			}
			var squeezed []byte
			for _, c := range want[a:b] {
				if c != 0 {
					squeezed = append(squeezed, c)
				}
			}
			if bytes.Equal(out.Bytes(), squeezed) {
				fs.add("stream-content-holes-not-zero-filled", func() string { return fmt.Sprintf("StreamContent [%d,%d) wrote % x (%d bytes), want % x (%d bytes): the hole bytes are skipped", a, b, out.Bytes(), out.Len(), want[a:b], b-a) })
			} else {
				fs.add("stream-content-mismatch", func() string { return fmt.Sprintf("StreamContent [%d,%d) wrote % x, want % x", a, b, out.Bytes(), want[a:b]) })
			}
		}
	}
	return fs.list
}

// ---- enumeration ---------------------------------------------------------------------------

type shape struct{ off, size int }

func shapeSet(maxOff, maxSize int) []shape {
	var s []shape
	for size := 1; size <= maxSize; size++ {
		for off := 0; off <= maxOff; off++ {
			s = append(s, shape{off, size})
		}
	}
	return s
}

func allPerms(n int) [][]int {
	var out [][]int
	mc.Permutations(n, func(p []int) bool {
		out = append(out, append([]int(nil), p...))
		return true
	})
	// Permutations is not lexicographic; make the order canonical
	sort.Slice(out, func(i, j int) bool {
		for k := range out[i] {
			if out[i][k] != out[j][k] {
				return out[i][k] < out[j][k]
			}
		}
		return false
	})
	return out
}

func endPerms(n int) [][]int {
	id := make([]int, n)
	rev := make([]int, n)
	for i := range id {
		id[i] = i
		rev[i] = n - 1 - i
	}
	if n < 2 {
		return [][]int{id}
	}
	return [][]int{id, rev}
}

type phase struct {
	domain string
	set    string // name of the shape set / list-order set
	n      int
	shapes []shape
	perms  [][]int // perms[p][listPosition] = rank
	fn     func([]chunkSpec, *counters) []finding
}

type pending struct {
	class, msg string
	c          caseT
}

func runPhase(r *mc.Run, ph phase) {
	if f := os.Getenv("C17_PHASES"); f != "" { // development aid: run only the named phases
		r.NotExhaustive("C17_PHASES filter set")
		if !strings.Contains(","+f+",", fmt.Sprintf(",%s-%s-%d,", ph.domain, ph.set, ph.n)) {
			return
		}
	}
	if os.Getenv("C17_TIMING") != "" {
		t0 := time.Now()
		defer func() { fmt.Printf("phase %s-%s-%d: %.1fs\n", ph.domain, ph.set, ph.n, time.Since(t0).Seconds()) }()
	}
	S := len(ph.shapes)
	// items: the shape of the oldest chunk x (if n>1) the shape of the second oldest
	items := S
	if ph.n > 1 {
		items = S * S
	}
	name := fmt.Sprintf("%s-%s-%d", ph.domain, ph.set, ph.n)
	if cp := os.Getenv("VERIF_CHILD_PHASE"); cp != "" && cp != name {
		return // a worker process of another phase: nothing to do here
	}
	// (worker subprocesses were tried instead of goroutines: same CPU cost plus ~0.4 s start-up per worker)
	shardBody := func(shard, n int) {
		total := flib.Tally{}
		var cnt counters
		var lists int64
		expired := false
		for it := shard; it < items; it += n {
			if !r.Begin(map[string]interface{}{"phase": name, "item": it}) {
				continue
			}
			if r.Expired() {
				expired = true
				break
			}
			seen := map[string]bool{}
			fixed := []int{it}
			if ph.n > 1 {
				fixed = []int{it / S, it % S}
			}
			rest := ph.n - len(fixed)
			sizes := make([]int, rest)
			for i := range sizes {
				sizes[i] = S
			}
			var pend []pending
			each := func(ix []int) bool {
				byRank := append(append([]int(nil), fixed...), ix...)
				for _, p := range ph.perms {
					specs := make([]chunkSpec, ph.n)
					for pos, rank := range p {
						sh := ph.shapes[byRank[rank]]
						specs[pos] = chunkSpec{Off: sh.off, Size: sh.size, Rank: rank}
					}
					fs := guarded(ph.domain, ph.fn)(specs, &cnt)
					lists++
					outcome := "ok"
					if len(fs) > 0 {
						var names []string
						for _, f := range fs {
							names = append(names, f.class)
							if !seen[f.class] {
								seen[f.class] = true
								pend = append(pend, pending{f.class, f.msg, caseT{ph.domain, specs}})
							}
						}
						sort.Strings(names)
						outcome = strings.Join(names, "+")
					}
					total.Add(ph.domain + "|" + features(specs) + "|" + outcome)
				}
				return true
			}
			if rest == 0 {
				each(nil)
			} else {
				mc.Product(sizes, each)
			}
			for _, p := range pend {
				p := p
				r.Violate(p.class, p.msg, p.c, func() bool { return hasClass(runCase(p.c), p.class) })
			}
		}
		if expired {
			r.NotExhaustive("budget expired in phase " + name)
		}
		for _, k := range total.SortedKeys() {
			r.Case(k)
			r.Cases(total[k] - 1)
		}
		r.Add("reads_"+ph.domain, cnt.reads)
		r.Add("window_views_"+ph.domain, cnt.windows)
		r.Add("lists_"+name, lists)
	}
	r.Go(items, 16, func(it int) { shardBody(it, items) })
}

func runCase(c caseT) []finding {
	var cnt counters
	switch c.Domain {
	case "plain":
		return guarded("plain", runPlain)(c.Chunks, &cnt)
	case "manifest":
		return guarded("manifest", runManifest)(c.Chunks, &cnt)
	case "http":
		return guarded("http", runHTTP)(c.Chunks, &cnt)
	}
	mc.Fatal("unknown domain %q", c.Domain)
	return nil
}

func hasClass(fs []finding, class string) bool {
	for _, f := range fs {
		if f.class == class {
			return true
		}
	}
	return false
}

func validCase(c caseT) bool {
	seen := map[int]bool{}
	for _, s := range c.Chunks {
		if s.Rank < 0 || s.Rank >= maxRank || s.Size < 1 || s.Size > 7 || s.Off < 0 || s.Off > 64 || seen[s.Rank] {
			return false
		}
		seen[s.Rank] = true
	}
	return len(c.Chunks) > 0
}

func run(r *mc.Run) {
	flib.QuietGlog()
	if pf := os.Getenv("C17_PROF"); pf != "" { // development aid
		if f, err := os.Create(pf); err == nil {
			pprof.StartCPUProfile(f)
			defer pprof.StopCPUProfile()
		}
	}
	defer func() {
		if blob != nil {
			blob.Close()
		}
	}()
	if r.Replay != "" {
		var c caseT
		if err := r.ReplayCase(&c); err != nil || !validCase(c) {
			mc.Fatal("replay: bad case (%v)", err)
		}
		seen := map[string]bool{}
		for _, f := range runCase(c) {
			if !seen[f.class] {
				seen[f.class] = true
				r.Violate(f.class, f.msg, c, nil)
			}
		}
		r.Case("replay")
		return
	}
	r.Assume("chunk modification times are pairwise distinct (the statement says 'newest'; ties are not generated)")
	r.Assume("chunk data is served by a map-backed ChunkCache (hit/miss behaviours: whole-chunk hit, slice hit, cold + HTTP fetch); manifests and cold fetches go through util.ReadUrlAsStream against an in-process httptest blob server")
	r.Assume("CompactFileChunks is applied to manifest-free lists and, for lists with manifests, through the write path's pipeline SeparateManifestChunks -> CompactFileChunks -> manifestize -> re-attach (both callers do exactly this)")

	full := shapeSet(6, 4)  // 28 shapes: offset 0..6 x size 1..4
	small := shapeSet(4, 3) // 15 shapes: offset 0..4 x size 1..3
	tiny := shapeSet(3, 2)  // 8 shapes: offset 0..3 x size 1..2
	T := r.Thorough()

	// plain lists: views for every window, reader for every window, compaction
	runPhase(r, phase{"plain", "full", 1, full, allPerms(1), runPlain})
	runPhase(r, phase{"plain", "full", 2, full, allPerms(2), runPlain})
	runPhase(r, phase{"plain", "small", 3, small, allPerms(3), runPlain})
	runPhase(r, phase{"plain", "full-ends", 3, full, endPerms(3), runPlain})
	runPhase(r, phase{"plain", "small-ends", 4, small, endPerms(4), runPlain})
	// manifests: every arrangement, every window, resolved over HTTP
	runPhase(r, phase{"manifest", "full", 1, full, allPerms(1), runManifest})
	runPhase(r, phase{"manifest", "tiny", 2, tiny, allPerms(2), runManifest})
	// cold-cache reader and StreamContent over HTTP
	runPhase(r, phase{"http", "full", 1, full, allPerms(1), runHTTP})
	runPhase(r, phase{"http", "tiny", 2, tiny, allPerms(2), runHTTP})
	if T {
		medium := shapeSet(3, 3) // 12 shapes: offset 0..3 x size 1..3
		runPhase(r, phase{"plain", "full", 3, full, allPerms(3), runPlain})
		runPhase(r, phase{"manifest", "full", 2, full, allPerms(2), runManifest})
		runPhase(r, phase{"manifest", "tiny", 3, tiny, allPerms(3), runManifest})
		runPhase(r, phase{"http", "full", 2, full, allPerms(2), runHTTP})
		runPhase(r, phase{"http", "tiny", 3, tiny, allPerms(3), runHTTP})
		runPhase(r, phase{"plain", "medium", 4, medium, allPerms(4), runPlain})
		runPhase(r, phase{"plain", "full-mtime-order", 4, full, endPerms(4)[:1], runPlain})
		runPhase(r, phase{"plain", "tiny-ends", 5, tiny, endPerms(5), runPlain})
	}

	r.Sample("plain", caseT{"plain", []chunkSpec{{0, 4, 0}, {2, 1, 1}, {5, 2, 2}}})
	r.Sample("manifest", caseT{"manifest", []chunkSpec{{1, 3, 1}, {0, 2, 0}}})
	r.Sample("http", caseT{"http", []chunkSpec{{0, 1, 0}, {3, 2, 1}}})
}
