// Package c22: metadata subscribers see every change once, in order.
// E1+E2 over the real log_buffer.LogBuffer (BufferSize scaled to 256 bytes by
// AST constant scaling so that rotation by size is reachable): appender,
// loopFlush, loopInterval and 1-2 subscribers that follow the same
// disk-then-memory procedure as FilerServer.SubscribeLocalMetadata.
package c22

import (
	"bytes"
	"fmt"
	"io"
	"sort"
	"strconv"
	"strings"
	"time"

	"verif/mc"
	"verif/mc/racepass"
	"verif/shim/vsched"
	"verif/shim/vtime"

	"github.com/chrislusf/seaweedfs/weed/filer"
	"github.com/chrislusf/seaweedfs/weed/pb/filer_pb"
	"github.com/chrislusf/seaweedfs/weed/util/log_buffer"
)

func Main() {
	mc.Main("C22", "model_checking",
		"E1/E2 stateless DFS: all interleavings (preemption/timer-deviation bounded) of one appender (3-5 events with explicit timestamps, some forcing rotation by time or by size), the buffer's own loopFlush and loopInterval goroutines (the flush-interval sleep is a virtual timer) and 1-2 subscribers that run the real LoopProcessLogData and, on ResumeFromDiskError, the real ReadEachLogEntry over the flushed segments, starting from timestamps {0, t1-1, t1, t2, last}; oracle at quiescence: each subscriber received exactly the events with ts > start, once, in increasing order. distinct = (event pattern, starts, number of distinct delivery traces)",
		run)
}

type scenario struct {
	Events  []ev    `json:"events"`
	Starts  []int   `json:"starts"` // per subscriber: index into the start-time menu
	Choices []int   `json:"choices,omitempty"`
}

type ev struct {
	AtSec int `json:"at_s"`  // offset from T0 in seconds (0 = "now", i.e. eventTsNs==0 is not used: explicit ts)
	Len   int `json:"len"`   // payload length
}

const t0ns = int64(1700000000) * 1e9

// effective timestamps as AddToBuffer assigns them (strictly increasing)
func effective(evs []ev) []int64 {
	var out []int64
	last := int64(0)
	for _, e := range evs {
		ts := t0ns + int64(e.AtSec)*1e9
		if last >= ts {
			ts = last + 1
		}
		last = ts
		out = append(out, ts)
	}
	return out
}

func startMenu(evs []ev) []int64 {
	ts := effective(evs)
	m := []int64{0, ts[0] - 1, ts[0]}
	if len(ts) > 1 {
		m = append(m, ts[1])
	}
	m = append(m, ts[len(ts)-1])
	return m
}

type result struct {
	got     [][]int64 // per subscriber, received TsNs in order
	payload [][]string
	// buffer state at the end of the execution (for classification only)
	pos         int
	stopNs      int64
	lastFlushNs int64
	sealed      []log_buffer.SealedV
}

func execute(sc scenario, res *result) {
	eff := effective(sc.Events)
	var disk [][]byte
	appends, appenderDone := 0, false
	var lb *log_buffer.LogBuffer
	lb = log_buffer.NewLogBuffer("c22", time.Minute, func(startTime, stopTime time.Time, buf []byte) {
		disk = append(disk, append([]byte{}, buf...))
	}, func() {})
	done := 0
	n := 1 + len(sc.Starts)
	// appender
	vsched.Go(func() {
		for i, e := range sc.Events {
			data := []byte(fmt.Sprintf("e%d-%s", i, strings.Repeat("x", e.Len)))
			lb.AddToBuffer([]byte("k"), data, t0ns+int64(e.AtSec)*1e9)
			appends++
		}
		appenderDone = true
		done++
	})
	menu := startMenu(sc.Events)
	res.got = make([][]int64, len(sc.Starts))
	res.payload = make([][]string, len(sc.Starts))
	for si, st := range sc.Starts {
		si, start := si, menu[st]
		vsched.Go(func() {
			each := func(le *filer_pb.LogEntry) error {
				res.got[si] = append(res.got[si], le.TsNs)
				res.payload[si] = append(res.payload[si], string(le.Data))
				return nil
			}
			seen := -1
			wait := func() bool {
				// called after an in-memory read found nothing newer: block until
				// something was appended since, or the appender is finished
				if seen < 0 {
					seen = 0
				}
				vsched.PointWhen("wait-data", func() bool { return appends > seen || appenderDone })
				if appends > seen {
					seen = appends
					return true
				}
				return false
			}
			readPersisted := func(since time.Time) (lastTsNs int64) {
				sizeBuf := make([]byte, 4)
				for _, seg := range disk {
					ts, err := filer.ReadEachLogEntry(bytes.NewReader(seg), sizeBuf, since.UnixNano(), each)
					if ts != 0 {
						lastTsNs = ts
					}
					if err != nil && err != io.EOF {
						panic(fmt.Sprintf("ReadEachLogEntry: %v", err))
					}
				}
				return
			}
			// the loop of FilerServer.SubscribeLocalMetadata
			lastReadTime := time.Unix(0, start)
			var inMemErr error
			for iter := 0; iter < 64; iter++ {
				processed := readPersisted(lastReadTime)
				if processed != 0 {
					lastReadTime = time.Unix(0, processed)
				} else if inMemErr == log_buffer.ResumeFromDiskError {
					vtime.Sleep(1127 * time.Millisecond)
					inMemErr = nil
					continue
				}
				lastReadTime, inMemErr = lb.LoopProcessLogData("sub", lastReadTime, wait, each)
				if inMemErr == nil {
					break
				}
				if inMemErr == log_buffer.ResumeFromDiskError {
					continue
				}
				vtime.Sleep(1127 * time.Millisecond)
				if inMemErr != log_buffer.ResumeError {
					break
				}
			}
			done++
		})
	}
	vsched.PointWhen("join", func() bool { return done == n })
	_ = eff
	res.pos, _, res.stopNs, res.lastFlushNs, res.sealed = lb.DebugStateV()
}

func judge(sc scenario, res *result) (string, string) {
	eff := effective(sc.Events)
	menu := startMenu(sc.Events)
	for si, st := range sc.Starts {
		start := menu[st]
		var want []int64
		for _, t := range eff {
			if t > start {
				want = append(want, t)
			}
		}
		got := res.got[si]
		if fmt.Sprint(got) == fmt.Sprint(want) {
			continue
		}
		// classify
		seen := map[int64]int{}
		cls := ""
		for i, t := range got {
			seen[t]++
			if i > 0 && got[i-1] >= t && cls == "" {
				cls = "out-of-order-or-duplicate"
			}
		}
		for _, t := range got {
			if seen[t] > 1 {
				cls = "duplicate-delivery"
			}
		}
		for i, t := range want {
			if seen[t] == 0 {
				cls = "lost-event-gap"
				// the subscriber got a proper non-empty suffix of what it should get: the oldest events were
				// evicted from the three sealed buffers while their flush had not reached the disk yet
				for k := 1; k < len(want); k++ {
					if len(sc.Events) >= 5 && fmt.Sprint(got) == fmt.Sprint(want[k:]) {
						cls = "lost-event-gap:oldest-events-missed-after-four-rotations-with-flush-pending"
					}
				}
				// a correct strict prefix was delivered: the subscriber is merely behind at quiescence
				if len(got) == i && fmt.Sprint(got) == fmt.Sprint(want[:i]) {
					cls = "stalled-at-quiescence"
					// narrow it: every undelivered event sits in a sealed (rotated, not yet flushed-and-noticed)
					// buffer while the current buffer is empty, so ReadFromBuffer answers "nothing new"
					inSealed := true
					for _, u := range want[i:] {
						found := false
						for _, sb := range res.sealed {
							if sb.Size > 0 && sb.StartNs <= u && u <= sb.StopNs {
								found = true
							}
						}
						if !found {
							inSealed = false
						}
					}
					if inSealed && res.pos == 0 {
						cls = "stalled-at-quiescence:undelivered-only-in-sealed-buffers-while-current-buffer-empty"
					} else if res.pos == 0 {
						// same read-path answer ("nothing new" because the current buffer is empty), but some of the
						// undelivered events have already left the sealed buffers and sit in the flush queue only
						oldest := int64(1) << 62
						for _, sb := range res.sealed {
							if sb.Size > 0 && sb.StartNs < oldest {
								oldest = sb.StartNs
							}
						}
						all := true
						for _, u := range want[i:] {
							found := u < oldest
							for _, sb := range res.sealed {
								if sb.Size > 0 && sb.StartNs <= u && u <= sb.StopNs {
									found = true
								}
							}
							if !found {
								all = false
							}
						}
						if all {
							cls = "stalled-at-quiescence:undelivered-in-sealed-buffers-or-older-while-current-buffer-empty"
						}
					}
				}
				break
			}
		}
		for _, t := range got {
			if t <= start {
				cls = "event-not-after-start"
			}
		}
		if cls == "" {
			cls = "wrong-delivery"
		}
		return cls, fmt.Sprintf("subscriber %d from %d: got %v want %v", si, start-t0ns, rel(got), rel(want))
	}
	return "", ""
}

func rel(ts []int64) []int64 {
	out := make([]int64, len(ts))
	for i, t := range ts {
		out[i] = t - t0ns
	}
	return out
}

func cfg(s *vsched.Sched) { s.TimerCost = 1 }

func run(r *mc.Run) {
	mc.QuietGlog()
	defer mc.StartProfile()()
	r.Assume("log_buffer.BufferSize scaled from 4 MiB to 256 bytes by AST constant scaling (rotation by size reachable with 4 events); PreviousBufferCount unchanged (3)")
	r.Assume("flushed segments are kept in memory in flush order and read with the real filer.ReadEachLogEntry (the filer's per-minute segment files are not modelled)")
	if r.Replay != "" {
		var sc scenario
		if err := r.ReplayCase(&sc); err != nil {
			mc.Fatal("replay: %v", err)
		}
		var res result
		x, _ := mc.RunOne(sc.Choices, nil, 4000, func(s *vsched.Sched) { cfg(s); s.KeepTrace = true }, func() { res = result{}; execute(sc, &res) })
		fmt.Println("trace:", strings.Join(x.Sched.Trace, " "))
		fmt.Println("received:", res.got, res.payload)
		if x.Sched.Outcome != "" {
			r.Violate("sched-"+strings.SplitN(x.Sched.Outcome, ":", 2)[0], x.Sched.Outcome, sc, nil)
		} else if cl, msg := judge(sc, &res); cl != "" {
			r.Violate(cl, msg, sc, nil)
		}
		return
	}
	// the literal "no data races" clause: separate free-running -race pass (DESIGN.md 2.4)
	racepass.Run(r, "logbuffer", r.Pick(3, 20), "log_buffer")
	bound := r.Pick(2, 3)
	// event patterns: payload 50 bytes => ~72 bytes per entry, 3 fit into 256; seconds chosen so that
	// some appends force a rotation by time (gap > 1 minute) and equal timestamps get bumped
	patterns := [][]ev{
		{{1, 50}, {2, 50}, {2, 50}},
		{{1, 50}, {90, 50}, {91, 50}},
		{{1, 50}, {2, 50}, {3, 50}, {4, 50}},
		{{1, 50}, {2, 5}, {90, 50}, {200, 5}},
		// five appends a minute apart: four rotations by time, so that a sealed buffer's array is recycled
		// while its flush may still be queued
		{{1, 50}, {70, 50}, {140, 50}, {210, 50}, {280, 50}},
	}
	if r.Thorough() {
		patterns = append(patterns,
			[]ev{{1, 50}, {2, 50}, {3, 50}, {4, 50}, {5, 50}},
			[]ev{{1, 50}, {70, 50}, {140, 50}, {210, 50}, {280, 50}, {350, 50}},
			[]ev{{1, 120}, {2, 120}, {3, 120}, {4, 120}, {5, 120}},
		)
	}
	var all []scenario
	for _, p := range patterns {
		m := len(startMenu(p))
		for s := 0; s < m; s++ {
			all = append(all, scenario{Events: p, Starts: []int{s}})
		}
		if r.Thorough() {
			for s := 0; s < m; s++ {
				for s2 := s; s2 < m; s2++ {
					all = append(all, scenario{Events: p, Starts: []int{s, s2}})
				}
			}
		} else if len(p) == 3 {
			all = append(all, scenario{Events: p, Starts: []int{0, 3}})
		}
	}
	r.Set("deviation_bound", fmt.Sprintf("%d for 3 events and one subscriber; one less for each of: >3 events, two subscribers", bound))
	r.Set("scenarios", len(all))
	r.WorkerProcs = 1
	r.Parallel("sched", 16, func(shard, n int) {
		for i, sc := range all {
			if i%n != shard {
				continue
			}
			if !r.Begin(sc) {
				continue
			}
			if r.Expired() {
				r.NotExhaustive("wall-clock budget: not all scenarios explored")
				break
			}
			b := bound
			if len(sc.Starts) > 1 {
				b--
			}
			if len(sc.Events) > 3 {
				b--
			}
			if b < 0 {
				b = 0
			}
			explore(r, sc, b, i == shard)
		}
	})
}

func explore(r *mc.Run, sc scenario, bound int, selfTest bool) {
	var res result
	if selfTest {
		var a, b result
		x1, _ := mc.RunOne([]int{1}, nil, 4000, cfg, func() { a = result{}; execute(sc, &a) })
		mc.RunOne(x1.Choices, x1.Ns, 4000, cfg, func() { b = result{}; execute(sc, &b) })
		if fmt.Sprint(a) != fmt.Sprint(b) {
			mc.Fatal("determinism self-test failed: %v | %v", a, b)
		}
	}
	traces := map[string]bool{}
	st := mc.Explore(bound, 4000, cfg,
		func() { res = result{}; execute(sc, &res) },
		func(x *mc.Exec) {
			w := sc
			w.Choices = append([]int{}, x.Choices...)
			if x.Sched.Outcome != "" {
				r.Violate("sched-"+strings.SplitN(x.Sched.Outcome, ":", 2)[0], x.Sched.Outcome, w, nil)
				return
			}
			traces[fmt.Sprint(res.got)] = true
			if cl, msg := judge(sc, &res); cl != "" {
				r.Violate(cl, msg, w, func() bool {
					var r2 result
					mc.RunOne(w.Choices, nil, 4000, cfg, func() { r2 = result{}; execute(sc, &r2) })
					c2, _ := judge(sc, &r2)
					return c2 == cl
				})
			}
		}, r.Expired)
	if !st.Complete {
		r.NotExhaustive("wall-clock budget inside a scenario")
	}
	r.Cases(st.Executions)
	r.AddStates(st.Executions)
	r.AddTransitions(st.Points + st.Executions)
	for k, v := range st.ByCost {
		r.Add("executions_with_"+strconv.Itoa(k)+"_deviations", v)
	}
	var oc []string
	for k, v := range st.Outcomes {
		oc = append(oc, fmt.Sprintf("%q:%d", k, v))
	}
	sort.Strings(oc)
	r.Distinct(fmt.Sprintf("events=%v|starts=%v|traces=%d", sc.Events, sc.Starts, len(traces)))
	r.Sample("scenario", map[string]interface{}{"events": sc.Events, "starts": sc.Starts, "executions": st.Executions, "max_choice_points": st.MaxLen, "outcomes": oc})
}
