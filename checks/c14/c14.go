// Package c14: vacuum rounds keep replicas consistent and writable.
// E1+E2 over the real Topology.Vacuum (topology_vacuum.go rewritten: goroutines,
// channels, select and the wait timer under vsched; weed/operation replaced by a
// shim that hands the code an in-process VolumeServerClient).  Every outcome of
// every RPC is an explored environment choice, every completion order of the
// per-replica goroutines and the timer is explored up to a preemption bound.
package c14

import (
	"context"
	"fmt"
	"sort"
	"strconv"
	"strings"

	"google.golang.org/grpc"

	"verif/mc"
	"verif/shim/voperation"
	"verif/shim/vsched"

	"github.com/chrislusf/seaweedfs/weed/pb/master_pb"
	"github.com/chrislusf/seaweedfs/weed/pb/volume_server_pb"
	"github.com/chrislusf/seaweedfs/weed/sequence"
	"github.com/chrislusf/seaweedfs/weed/storage/needle"
	"github.com/chrislusf/seaweedfs/weed/storage/super_block"
	"github.com/chrislusf/seaweedfs/weed/storage/types"
	"github.com/chrislusf/seaweedfs/weed/topology"
)

func Main() {
	mc.Main("C14", "fault_enumeration",
		"E1/E2: for replicas 1..3 and initial volume state {writable, oversized}, the real Topology.Vacuum runs against scripted in-process replicas; every RPC outcome (check: below/above threshold/error/hang; compact: ok/error/hang; commit: ok/ok+readonly/error; cleanup: ok/error) is a free environment choice made when the RPC is issued, and every completion order of the per-replica goroutines and of the wait timer is explored up to the preemption bound. Oracle after the round: no commit reached a replica whose compaction did not succeed, replicas hold the same live content, and the volume is writable iff it was before (unless a replica reported itself read-only). distinct = (replicas, initial state, outcome vector class, verdict)",
		run)
}

type scenario struct {
	Replicas  int  `json:"replicas"`
	Oversized bool `json:"oversized"`
	// Requests > 1: that many Topology.Vacuum calls race (every RPC answers its default
	// outcome); at most one round may be in flight, the others must be turned away.
	Requests int   `json:"requests,omitempty"`
	Choices  []int `json:"choices,omitempty"`
}

type replica struct {
	url       string
	content   string
	revision  int
	compacted bool // a successful, not yet committed/cleaned compaction exists
	log       []string
}

type world struct {
	reps      map[string]*replica
	order     []string
	outcomes  []string // chosen outcomes, in issue order
	badCommit string
	fixed     bool // every RPC answers its default outcome (racing-requests scenarios)
}

type fakeClient struct {
	volume_server_pb.VolumeServerClient
	w   *world
	rep *replica
}

var checkOutcomes = []string{"above", "below", "error", "hang"}
var compactOutcomes = []string{"ok", "error", "hang"}
var commitOutcomes = []string{"ok", "ok-readonly", "error"}
var cleanupOutcomes = []string{"ok", "error"}

func (c *fakeClient) choose(phase string, menu []string) string {
	o := menu[0]
	if !c.w.fixed {
		o = menu[vsched.Choose(phase, len(menu), 0)]
	}
	c.w.outcomes = append(c.w.outcomes, fmt.Sprintf("%s@%s=%s", phase, c.rep.url, o))
	c.rep.log = append(c.rep.log, phase+":"+o)
	if o == "hang" {
		vsched.PointWhen("rpc-hang", func() bool { return false })
	}
	return o
}

func (c *fakeClient) VacuumVolumeCheck(ctx context.Context, in *volume_server_pb.VacuumVolumeCheckRequest, opts ...grpc.CallOption) (*volume_server_pb.VacuumVolumeCheckResponse, error) {
	vsched.Point("rpc")
	switch c.choose("check", checkOutcomes) {
	case "above":
		return &volume_server_pb.VacuumVolumeCheckResponse{GarbageRatio: 0.9}, nil
	case "below":
		return &volume_server_pb.VacuumVolumeCheckResponse{GarbageRatio: 0.0}, nil
	}
	return nil, fmt.Errorf("injected check error")
}

func (c *fakeClient) VacuumVolumeCompact(ctx context.Context, in *volume_server_pb.VacuumVolumeCompactRequest, opts ...grpc.CallOption) (*volume_server_pb.VacuumVolumeCompactResponse, error) {
	vsched.Point("rpc")
	if c.choose("compact", compactOutcomes) == "ok" {
		c.rep.compacted = true
		return &volume_server_pb.VacuumVolumeCompactResponse{}, nil
	}
	return nil, fmt.Errorf("injected compact error")
}

func (c *fakeClient) VacuumVolumeCommit(ctx context.Context, in *volume_server_pb.VacuumVolumeCommitRequest, opts ...grpc.CallOption) (*volume_server_pb.VacuumVolumeCommitResponse, error) {
	vsched.Point("rpc")
	if !c.rep.compacted {
		c.w.badCommit = c.rep.url
		// committing without a finished compaction replaces the volume by an incomplete copy
		c.rep.content = "CORRUPT"
	}
	switch c.choose("commit", commitOutcomes) {
	case "ok":
		c.rep.compacted = false
		c.rep.revision++
		return &volume_server_pb.VacuumVolumeCommitResponse{}, nil
	case "ok-readonly":
		c.rep.compacted = false
		c.rep.revision++
		return &volume_server_pb.VacuumVolumeCommitResponse{IsReadOnly: true}, nil
	}
	return nil, fmt.Errorf("injected commit error")
}

func (c *fakeClient) VacuumVolumeCleanup(ctx context.Context, in *volume_server_pb.VacuumVolumeCleanupRequest, opts ...grpc.CallOption) (*volume_server_pb.VacuumVolumeCleanupResponse, error) {
	vsched.Point("rpc")
	if c.choose("cleanup", cleanupOutcomes) == "ok" {
		c.rep.compacted = false
		return &volume_server_pb.VacuumVolumeCleanupResponse{}, nil
	}
	return nil, fmt.Errorf("injected cleanup error")
}

const sizeLimit = 1000 * 1024 * 1024

type obs struct {
	before, after bool
	w             *world
}

func writable(vl *topology.VolumeLayout, vid needle.VolumeId) bool {
	for _, v := range vl.ToMap()["writables"].([]needle.VolumeId) {
		if v == vid {
			return true
		}
	}
	return false
}

func execute(sc scenario, o *obs) {
	w := &world{reps: map[string]*replica{}, fixed: sc.Requests > 1}
	o.w = w
	topo := topology.NewTopology("t", sequence.NewMemorySequencer(), sizeLimit, 5, false)
	rack := topo.GetOrCreateDataCenter("dc1").GetOrCreateRack("r1")
	rp, _ := super_block.NewReplicaPlacementFromString(fmt.Sprintf("00%d", sc.Replicas-1))
	size := uint64(100)
	if sc.Oversized {
		size = sizeLimit + 1
	}
	for i := 0; i < sc.Replicas; i++ {
		dn := rack.GetOrCreateDataNode("10.0.0."+strconv.Itoa(i+1), 8080, "", map[string]uint32{"": 10})
		vi := &master_pb.VolumeInformationMessage{Id: 1, Size: size, Collection: "", FileCount: 10, DeleteCount: 5, DeletedByteCount: 50,
			ReplicaPlacement: uint32(rp.Byte()), Version: 3, Ttl: 0}
		topo.SyncDataNodeRegistration([]*master_pb.VolumeInformationMessage{vi}, dn)
		r := &replica{url: dn.Url(), content: "live-content"}
		w.reps[r.url] = r
		w.order = append(w.order, r.url)
	}
	vl := topo.GetVolumeLayout("", rp, needle.EMPTY_TTL, types.HardDriveType)
	o.before = writable(vl, 1)
	voperation.ClientFor = func(url string) volume_server_pb.VolumeServerClient {
		r := w.reps[url]
		if r == nil {
			panic("unknown volume server " + url)
		}
		return &fakeClient{w: w, rep: r}
	}
	if sc.Requests > 1 {
		done := 0
		for i := 0; i < sc.Requests; i++ {
			vsched.Go(func() {
				topo.Vacuum(grpc.WithInsecure(), 0.3, 0)
				done++
			})
		}
		vsched.PointWhen("join", func() bool { return done == sc.Requests })
	} else {
		topo.Vacuum(grpc.WithInsecure(), 0.3, 0)
	}
	o.after = writable(vl, 1)
}

// roundsOverlap: with every RPC answering its default outcome a replica's RPC log must be
// repetitions of check, compact, commit; anything else means two rounds were in flight together.
func roundsOverlap(w *world) string {
	want := []string{"check:above", "compact:ok", "commit:ok"}
	for _, u := range w.order {
		for i, e := range w.reps[u].log {
			if e != want[i%3] {
				return fmt.Sprintf("%s: rpc log %v", u, w.reps[u].log)
			}
		}
	}
	return ""
}

func judge(sc scenario, o *obs) (string, string) {
	w := o.w
	if sc.Requests > 1 {
		if ov := roundsOverlap(w); ov != "" {
			return "racing-requests:two-vacuum-rounds-in-flight", ov
		}
	}
	if w.badCommit != "" {
		return "commit-without-successful-compact", fmt.Sprintf("commit reached %s whose compaction did not succeed; outcomes %v", w.badCommit, w.outcomes)
	}
	first := ""
	for i, u := range w.order {
		if i == 0 {
			first = w.reps[u].content
		} else if w.reps[u].content != first {
			return "replicas-differ", fmt.Sprintf("live content differs: %v", w.outcomes)
		}
	}
	anyReadonly := false
	phase := map[string]bool{}
	for _, oc := range w.outcomes {
		if strings.HasSuffix(oc, "=ok-readonly") {
			anyReadonly = true
		}
		ph := oc[:strings.Index(oc, "@")] + oc[strings.Index(oc, "="):]
		phase[ph] = true
	}
	want := o.before && !anyReadonly
	if o.after == want {
		return "", ""
	}
	if o.after && !o.before {
		if sc.Oversized {
			return "oversized-volume-writable-after-commit", fmt.Sprintf("volume was over the size limit (not writable) before the round and is writable after it; outcomes %v", w.outcomes)
		}
		return "became-writable", fmt.Sprintf("outcomes %v", w.outcomes)
	}
	// was writable, is not any more
	cls := "unwritable-after-round:other"
	switch {
	case phase["commit=error"]:
		cls = "unwritable-after-failed-commit"
	case phase["compact=error"] || phase["compact=hang"]:
		cls = "unwritable-after-failed-compact"
	case phase["cleanup=ok"] || phase["cleanup=error"]:
		cls = "unwritable-after-compact-wait-timeout" // every compaction answered ok, yet cleanup ran: the wait timer fired first
	case phase["compact=ok"] && !phase["commit=ok"] && !phase["commit=ok-readonly"]:
		cls = "unwritable-after-compact-never-committed"
	}
	return cls, fmt.Sprintf("writable before the round, not writable after it; outcomes %v", w.outcomes)
}

func cfg(s *vsched.Sched) { s.TimerCost = 1 }

// racing-requests scenarios: every RPC answers at once, so a wait timer firing first is not a
// behaviour of interest there (and would make the per-replica RPC grammar ambiguous)
func cfgNoTimers(s *vsched.Sched) { s.TimerCost = 1000 }

func cfgFor(sc scenario) func(*vsched.Sched) {
	if sc.Requests > 1 {
		return cfgNoTimers
	}
	return cfg
}

func run(r *mc.Run) {
	mc.QuietGlog()
	r.Assume("replica model: compaction changes the revision, never the live content; a commit without a preceding successful compaction corrupts the replica")
	r.Assume("volume servers are replaced by in-process VolumeServerClient fakes (weed/operation substituted in topology_vacuum.go only); the real VolumeServer.Vacuum* handlers are not exercised here")
	if r.Replay != "" {
		var sc scenario
		if err := r.ReplayCase(&sc); err != nil {
			mc.Fatal("replay: %v", err)
		}
		var o obs
		x, _ := mc.RunOne(sc.Choices, nil, 5000, cfgFor(sc), func() { o = obs{}; execute(sc, &o) })
		voperation.ClientFor = nil
		if x.Sched.Outcome != "" {
			r.Violate("sched-"+strings.SplitN(x.Sched.Outcome, ":", 2)[0], x.Sched.Outcome, sc, nil)
		} else if cl, msg := judge(sc, &o); cl != "" {
			r.Violate(cl, msg, sc, nil)
		}
		return
	}
	var all []scenario
	for n := 1; n <= 3; n++ {
		for _, ov := range []bool{false, true} {
			all = append(all, scenario{Replicas: n, Oversized: ov})
		}
	}
	// racing Vacuum requests (the round lock): 3 requests, 1 or 2 replicas
	racing := []scenario{{Replicas: 1, Requests: 3}, {Replicas: 2, Requests: 3}, {Replicas: 1, Requests: 2}}
	bound := r.Pick(1, 2)
	r.Set("preemption_bound", fmt.Sprintf("%d (one less with 3 replicas; quick: 3 replicas not oversized only)", bound))
	if r.Quick() {
		all = all[:5]
	}
	if r.Quick() {
		racing = racing[:1]
	}
	all = append(all, racing...)
	r.WorkerProcs = 1
	r.Parallel("sched", len(all), func(shard, n int) {
		for i, sc := range all {
			if i%n != shard || !r.Begin(sc) {
				continue
			}
			b := bound
			if sc.Replicas == 3 {
				b--
			}
			if sc.Requests > 1 {
				b = 2 // the third request has to slip in after the second cleared the lock
			}
			explore(r, sc, b)
		}
	})
}

func explore(r *mc.Run, sc scenario, bound int) {
	var o obs
	st := mc.Explore(bound, 5000, cfgFor(sc),
		func() { o = obs{}; execute(sc, &o) },
		func(x *mc.Exec) {
			w := sc
			w.Choices = append([]int{}, x.Choices...)
			if x.Sched.Outcome != "" {
				r.Violate("sched-"+strings.SplitN(x.Sched.Outcome, ":", 2)[0], x.Sched.Outcome, w, nil)
				return
			}
			cl, msg := judge(sc, &o)
			// outcome-vector class: multiset of phase outcomes
			var ph []string
			for _, oc := range o.w.outcomes {
				ph = append(ph, oc[:strings.Index(oc, "@")]+oc[strings.Index(oc, "="):])
			}
			sort.Strings(ph)
			r.Distinct(fmt.Sprintf("n=%d|over=%v|%s|before=%v|after=%v|%s", sc.Replicas, sc.Oversized, strings.Join(ph, ","), o.before, o.after, cl))
			if cl != "" {
				r.Violate(cl, msg, w, func() bool {
					var o2 obs
					mc.RunOne(w.Choices, nil, 5000, cfgFor(sc), func() { o2 = obs{}; execute(sc, &o2) })
					c2, _ := judge(sc, &o2)
					return c2 == cl
				})
			}
		}, r.Expired)
	voperation.ClientFor = nil
	if !st.Complete {
		r.NotExhaustive(fmt.Sprintf("wall-clock budget inside scenario replicas=%d", sc.Replicas))
	}
	r.Cases(st.Executions)
	r.AddStates(st.Executions)
	r.AddTransitions(st.Points + st.Executions)
	for k, v := range st.ByCost {
		r.Add("executions_with_"+strconv.Itoa(k)+"_preemptions", v)
	}
	r.Sample("scenario", map[string]interface{}{"replicas": sc.Replicas, "oversized": sc.Oversized, "executions": st.Executions, "max_choice_points": st.MaxLen, "example_outcomes": o.w.outcomes})
}
