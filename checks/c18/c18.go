// Package c18: the filer namespace stays a well-formed tree (see checks/fsys).
package c18

import (
	"verif/checks/fsys"
	"verif/mc"
)

var paths = []string{"/a", "/a/b", "/a/b/c", "/d", "/a/d"}

func Main() {
	mc.Main("C18", "model_checking",
		"explicit-state search (breadth first, replay from the empty store) over all histories of create-file / create-dir / update / kind-flipping update / delete (recursive x deleteData, plus IgnoreRecursiveError on a non-recursive and on a recursive delete) / rename on the paths {/a,/a/b,/a/b/c,/d,/a/d}, executed on the real FilerServer gRPC methods over leveldb2; distinct = (operation, flags, kind of source, kind of target, outcome, store changed)",
		func(r *mc.Run) {
			fsys.Run(r, &fsys.Config{
				ID: "C18",
				Alpha: fsys.Alphabet{Paths: paths, Ops: map[string]bool{
					"mkfile": true, "mkdir": true, "updrepl": true, "flip": true, "del": true, "delign": true, "mv": true}},
				Judge:       func(s *fsys.Step, acc *fsys.Acc) *fsys.Verdict { return fsys.JudgeC18(s) },
				DepthQ:      4,
				DepthT:      6,
				Unmerged:    2,
				CrashBudget: 1,
			})
		})
}
