// Package c39: the mount's path-to-node cache (weed/filesys.FsCache) follows
// renames and deletes.  Explicit-state BFS over the real FsCache against a
// reference tree.
package c39

import (
	"fmt"
	"sort"
	"strings"

	"verif/checks/mountlib"
	"verif/mc"

	"github.com/chrislusf/seaweedfs/weed/filesys"
	"github.com/chrislusf/seaweedfs/weed/util"
	"github.com/seaweedfs/fuse/fs"
)

func Main() {
	mc.Main("C39", "model_checking",
		"explicit-state BFS over the real FsCache: events set/ensure/delete over 5 paths {/a,/a/b,/a/b/c,/d,/a/d} and move(p->q) over all 25 ordered pairs (incl. p=q, into own subtree, onto ancestor, onto existing subtree); after every event GetFsNode is compared for every path of the universe, the root and every path present in the real or the reference tree; all sequences unmerged to depth d0, then merged on (real tree dump incl. placeholders and internal name/parent consistency, reference dump) to depth d1",
		run)
}

var universe = []string{"/a", "/a/b", "/a/b/c", "/d", "/a/d"}

// ---- reference tree -----------------------------------------------------------

type refNode struct {
	payload  *filesys.Dir
	children map[string]*refNode
}

func split(p string) []string {
	var out []string
	for _, s := range strings.Split(p, "/") {
		if s != "" {
			out = append(out, s)
		}
	}
	return out
}

func (t *refNode) find(p string) (n, parent *refNode) {
	n = t
	for _, s := range split(p) {
		c := n.children[s]
		if c == nil {
			return nil, nil
		}
		parent, n = n, c
	}
	return n, parent
}

func (t *refNode) mk(p string) *refNode {
	n := t
	for _, s := range split(p) {
		if n.children == nil {
			n.children = map[string]*refNode{}
		}
		c := n.children[s]
		if c == nil {
			c = &refNode{}
			n.children[s] = c
		}
		n = c
	}
	return n
}

func (t *refNode) get(p string) *filesys.Dir {
	n, _ := t.find(p)
	if n == nil {
		return nil
	}
	return n.payload
}

func (t *refNode) del(p string) {
	n, parent := t.find(p)
	if n == nil || parent == nil {
		return
	}
	parts := split(p)
	delete(parent.children, parts[len(parts)-1])
}

// move: a missing source changes nothing; otherwise the source subtree is taken
// out, the ancestors of the destination are created if needed, and the subtree
// replaces whatever is at the destination.
func (t *refNode) move(o, q string) {
	n, parent := t.find(o)
	if n == nil || parent == nil {
		return
	}
	po := split(o)
	delete(parent.children, po[len(po)-1])
	pq := split(q)
	dir := t.mk("/" + strings.Join(pq[:len(pq)-1], "/"))
	if dir.children == nil {
		dir.children = map[string]*refNode{}
	}
	dir.children[pq[len(pq)-1]] = n
}

func (t *refNode) dump(prefix string, out *[]string) {
	names := make([]string, 0, len(t.children))
	for k := range t.children {
		names = append(names, k)
	}
	sort.Strings(names)
	for _, k := range names {
		c := t.children[k]
		mark := "-"
		if c.payload != nil {
			mark = "*"
		}
		*out = append(*out, prefix+"/"+k+mark)
		c.dump(prefix+"/"+k, out)
	}
}

func (t *refNode) paths(prefix string, out map[string]bool) {
	for k, c := range t.children {
		out[prefix+"/"+k] = true
		c.paths(prefix+"/"+k, out)
	}
}

func kind(n *refNode) string {
	switch {
	case n == nil:
		return "absent"
	case n.payload == nil && len(n.children) == 0:
		return "bare-placeholder"
	case n.payload == nil:
		return "placeholder"
	case len(n.children) == 0:
		return "leaf"
	}
	return "subtree"
}

// ---- the system ---------------------------------------------------------------

type system struct {
	r    *mc.Run
	cl   *mountlib.Classes
	root *filesys.Dir
	real *filesys.FsCache
	ref  *refNode
	seq  int
}

func (s *system) Reset() {
	s.root = filesys.NewDirV("/")
	s.real = filesys.NewFsCacheV(s.root)
	s.ref = &refNode{payload: s.root}
	s.seq = 0
}

func (s *system) Close() {}

// StaticMenu: the event menu does not depend on the state.
func (s *system) StaticMenu() {}

func (s *system) Events() []string {
	var evs []string
	for _, p := range universe {
		evs = append(evs, "set:"+p)
	}
	for _, p := range universe {
		evs = append(evs, "del:"+p)
	}
	for _, p := range universe {
		evs = append(evs, "ens:"+p)
	}
	for _, p := range universe {
		for _, q := range universe {
			evs = append(evs, "mv:"+p+">"+q)
		}
	}
	return evs
}

func (s *system) fresh() *filesys.Dir {
	s.seq++
	return filesys.NewDirV(fmt.Sprintf("n%d", s.seq))
}

// inputClass names the shape of the event relative to the current reference state.
func (s *system) inputClass(ev string) string {
	op, arg, _ := strings.Cut(ev, ":")
	if op != "mv" {
		n, _ := s.ref.find(arg)
		return op + ":" + kind(n)
	}
	o, q, _ := strings.Cut(arg, ">")
	rel := "disjoint"
	switch {
	case o == q:
		rel = "same"
	case strings.HasPrefix(q, o+"/"):
		rel = "into-own-subtree"
	case strings.HasPrefix(o, q+"/"):
		rel = "onto-ancestor"
	}
	src, _ := s.ref.find(o)
	dst, _ := s.ref.find(q)
	return "mv:" + rel + ":src-" + kind(src) + ":dst-" + kind(dst)
}

// Replay applies an event without evaluating the oracle (prefix of a path whose
// every prefix was already checked as a transition of its own).
func (s *system) Replay(ev string) { s.do(ev, false) }

func (s *system) Apply(ev string) string { return s.do(ev, true) }

func (s *system) do(ev string, check bool) (viol string) {
	ic := ""
	if check {
		ic = s.inputClass(ev)
	}
	defer func() {
		if e := recover(); e != nil {
			viol = mountlib.Viol(ic+":panic", "%s panicked: %v", ev, e)
		}
	}()
	op, arg, _ := strings.Cut(ev, ":")
	switch op {
	case "set":
		n := s.fresh()
		s.real.SetFsNode(util.FullPath(arg), n)
		s.ref.mk(arg).payload = n
	case "del":
		s.real.DeleteFsNode(util.FullPath(arg))
		s.ref.del(arg)
	case "ens":
		n := s.fresh()
		want := s.ref.get(arg)
		if want == nil {
			want = n
			s.ref.mk(arg).payload = n
		}
		got := s.real.EnsureFsNode(util.FullPath(arg), func() fs.Node { return n })
		if d, _ := got.(*filesys.Dir); d != want {
			return mountlib.Viol(ic+":ensure-returned-wrong-node", "EnsureFsNode(%s) returned %s, reference has %s", arg, name(d), name(want))
		}
	case "mv":
		o, q, _ := strings.Cut(arg, ">")
		s.real.Move(util.FullPath(o), util.FullPath(q))
		s.ref.move(o, q)
	default:
		mc.Fatal("unknown event %q", ev)
	}
	if !check {
		return ""
	}
	s.cl.Hit(ic)
	return s.compare(ic, ev)
}

func name(d *filesys.Dir) string {
	if d == nil {
		return "<none>"
	}
	return d.NameV()
}

// compare checks GetFsNode for every interesting path.
func (s *system) compare(ic, ev string) string {
	probe := map[string]bool{"/": true}
	for _, p := range universe {
		probe[p] = true
	}
	for _, e := range s.real.DumpV() {
		probe[e.Path] = true
	}
	s.ref.paths("", probe)
	paths := make([]string, 0, len(probe))
	for p := range probe {
		paths = append(paths, p)
	}
	sort.Strings(paths)
	for _, p := range paths {
		var got *filesys.Dir
		if n := s.real.GetFsNode(util.FullPath(p)); n != nil {
			got, _ = n.(*filesys.Dir)
			if got == nil {
				return mountlib.Viol(ic+":foreign-node", "after %s GetFsNode(%s) returned a node of type %T", ev, p, n)
			}
		}
		want := s.ref.get(p)
		if got == want {
			continue
		}
		sym := "wrong-node-at-path"
		if want == nil {
			sym = "stale-node-at-path"
		} else if got == nil {
			sym = "node-lost"
		}
		return mountlib.Viol(ic+":"+sym, "after %s GetFsNode(%s) = %s, reference tree has %s", ev, p, name(got), name(want))
	}
	return ""
}

func (s *system) Canon() string {
	var b strings.Builder
	for _, e := range s.real.DumpV() {
		b.WriteString(e.Path)
		if e.Node != nil {
			b.WriteByte('*')
		} else {
			b.WriteByte('-')
		}
		if e.Skew != "" {
			b.WriteString("!" + e.Skew)
		}
		b.WriteByte(' ')
	}
	b.WriteString("| ")
	var rd []string
	s.ref.dump("", &rd)
	b.WriteString(strings.Join(rd, " "))
	return b.String()
}

func run(r *mc.Run) {
	defer mountlib.QuietGlog()()
	cl := mountlib.NewClasses(r)
	sys := &system{r: r, cl: cl}
	if r.Replay != "" {
		var w mountlib.Witness
		if err := r.ReplayCase(&w); err != nil {
			mc.Fatal("replay: %v", err)
		}
		vs, at := mountlib.ReplayAll(sys, w.Events)
		r.Cases(1)
		for j, v := range vs {
			class, msg := mountlib.SplitViol(v)
			r.Violate(class, fmt.Sprintf("%s (event %d of %s)", msg, at[j]+1, strings.Join(w.Events, " ")), w, nil)
		}
		return
	}
	d0, d1 := r.Pick(2, 3), r.Pick(5, 7)
	res := mountlib.RunPBFS(r, "", func(int) mc.System { return &system{r: r, cl: cl} }, 16, d0, d1)
	r.Set("unmerged_depth", d0)
	r.Set("max_depth_reached", res.MaxDepth)
	r.Set("alphabet_size", len(sys.Events()))
	r.Assume("reference semantics of move: a missing source is a no-op; otherwise the source subtree is detached first, missing ancestors of the destination are created as payload-less placeholders, and the subtree replaces whatever was at the destination")
	r.Assume("GetFsNode is read-only (takes the read lock, mutates nothing), so lookups are performed as observations after every event rather than as separate events")
	r.Set("transitions_by_input_class", cl.Counts())
}
