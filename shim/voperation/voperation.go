// Package voperation stands in for weed/operation in single rewritten files: it
// cuts the network edge to volume servers.  With no handler installed it
// forwards to the real package.
package voperation

import (
	"google.golang.org/grpc"

	"github.com/chrislusf/seaweedfs/weed/operation"
	"github.com/chrislusf/seaweedfs/weed/pb/volume_server_pb"
)

// ClientFor, when non-nil, supplies the VolumeServerClient for a volume server
// url (ip:port) instead of dialing it.
var ClientFor func(volumeServer string) volume_server_pb.VolumeServerClient

func WithVolumeServerClient(volumeServer string, grpcDialOption grpc.DialOption, fn func(volume_server_pb.VolumeServerClient) error) error {
	if ClientFor != nil {
		return fn(ClientFor(volumeServer))
	}
	return operation.WithVolumeServerClient(volumeServer, grpcDialOption, fn)
}
