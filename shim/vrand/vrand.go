// Package vrand mirrors the parts of math/rand the repository uses.  Under
// vsched (or when a Script is installed) every answer is an explored choice;
// otherwise it forwards to math/rand.
package vrand

import (
	"math/rand"

	"verif/shim/vsched"
)

type (
	Rand   = rand.Rand
	Source = rand.Source
)

// Script, when non-nil, decides answers in pass-through mode: it is called with
// the exclusive upper bound and returns the answer.
var Script func(n int64) int64

// MaxBranch caps the number of alternatives explored for one call: answers are
// 0..n-1 when n <= MaxBranch, else the representatives 0, n-1, n/2, 1, n-2 ...
var MaxBranch = 8

// Reps lists the answers explored for an upper bound n.
func Reps(n int64) []int64 { return reps(n) }

func reps(n int64) []int64 {
	if n <= int64(MaxBranch) {
		out := make([]int64, n)
		for i := range out {
			out[i] = int64(i)
		}
		return out
	}
	cand := []int64{0, n - 1, n / 2, 1, n - 2, n / 4, 3 * n / 4, n/2 + 1}
	var out []int64
	seen := map[int64]bool{}
	for _, c := range cand {
		if c >= 0 && c < n && !seen[c] && len(out) < MaxBranch {
			seen[c] = true
			out = append(out, c)
		}
	}
	return out
}

func choose(n int64) int64 {
	if n <= 0 {
		panic("vrand: invalid argument")
	}
	if vsched.Active() {
		r := reps(n)
		return r[vsched.Choose("rand", len(r), 0)]
	}
	if Script != nil {
		return Script(n)
	}
	return rand.Int63n(n)
}

func Intn(n int) int         { return int(choose(int64(n))) }
func Int31n(n int32) int32   { return int32(choose(int64(n))) }
func Int63n(n int64) int64   { return choose(n) }
func Int() int               { return int(choose(1 << 30)) }
func Int31() int32           { return int32(choose(1 << 30)) }
func Int63() int64           { return choose(1 << 62) }
func Uint32() uint32         { return uint32(choose(1 << 32)) }
func Uint64() uint64         { return uint64(choose(1 << 62)) }
func Float32() float32       { return float32(choose(1<<24)) / (1 << 24) }
func Float64() float64       { return float64(choose(1<<53)) / (1 << 53) }
func Seed(seed int64)        {}
func New(src Source) *Rand   { return rand.New(src) }
func NewSource(s int64) Source { return rand.NewSource(s) }
func Read(p []byte) (int, error) {
	for i := range p {
		p[i] = byte(choose(256))
	}
	return len(p), nil
}
func Perm(n int) []int {
	m := make([]int, n)
	for i := 0; i < n; i++ {
		j := Intn(i + 1)
		m[i] = m[j]
		m[j] = i
	}
	return m
}
func Shuffle(n int, swap func(i, j int)) {
	for i := n - 1; i > 0; i-- {
		j := Intn(i + 1)
		swap(i, j)
	}
}
