// Package vsync mirrors the API of package sync.  With no scheduler installed
// it forwards to the real primitives; under vsched every blocking operation is
// a scheduling point whose enabledness is computed from shim-tracked state.
package vsync

import (
	"sync"

	"verif/shim/vsched"
)

type (
	Pool   = sync.Pool
	Map    = sync.Map
	Locker = sync.Locker
)

// ---- Mutex ---------------------------------------------------------------------

type Mutex struct {
	mu     sync.Mutex
	locked bool
}

func (m *Mutex) Lock() {
	if !vsched.Active() {
		m.mu.Lock()
		return
	}
	vsched.PointWhen("lock", func() bool { return !m.locked })
	m.locked = true
}

func (m *Mutex) TryLock() bool {
	if !vsched.Active() {
		return m.mu.TryLock()
	}
	vsched.Point("trylock")
	if m.locked {
		return false
	}
	m.locked = true
	return true
}

func (m *Mutex) Unlock() {
	if !vsched.Active() {
		m.mu.Unlock()
		return
	}
	if !m.locked && !vsched.Aborting() {
		panic("vsync: unlock of unlocked mutex")
	}
	m.locked = false
}

// ---- RWMutex -------------------------------------------------------------------

type RWMutex struct {
	mu      sync.RWMutex
	writer  bool
	readers int
}

func (m *RWMutex) Lock() {
	if !vsched.Active() {
		m.mu.Lock()
		return
	}
	vsched.PointWhen("wlock", func() bool { return !m.writer && m.readers == 0 })
	m.writer = true
}

func (m *RWMutex) Unlock() {
	if !vsched.Active() {
		m.mu.Unlock()
		return
	}
	if !m.writer && !vsched.Aborting() {
		panic("vsync: unlock of unlocked rwmutex")
	}
	m.writer = false
}

func (m *RWMutex) RLock() {
	if !vsched.Active() {
		m.mu.RLock()
		return
	}
	vsched.PointWhen("rlock", func() bool { return !m.writer })
	m.readers++
}

func (m *RWMutex) RUnlock() {
	if !vsched.Active() {
		m.mu.RUnlock()
		return
	}
	if m.readers <= 0 {
		if vsched.Aborting() {
			return
		}
		panic("vsync: runlock of unlocked rwmutex")
	}
	m.readers--
}

type rlocker RWMutex

func (r *rlocker) Lock()   { (*RWMutex)(r).RLock() }
func (r *rlocker) Unlock() { (*RWMutex)(r).RUnlock() }

func (m *RWMutex) RLocker() Locker { return (*rlocker)(m) }

// ---- WaitGroup -----------------------------------------------------------------

type WaitGroup struct {
	wg sync.WaitGroup
	n  int
}

func (w *WaitGroup) Add(d int) {
	if !vsched.Active() {
		w.wg.Add(d)
		return
	}
	w.n += d
	if w.n < 0 && !vsched.Aborting() {
		panic("vsync: negative WaitGroup counter")
	}
}

func (w *WaitGroup) Done() { w.Add(-1) }

func (w *WaitGroup) Wait() {
	if !vsched.Active() {
		w.wg.Wait()
		return
	}
	vsched.PointWhen("wg.wait", func() bool { return w.n <= 0 })
}

// ---- Once ----------------------------------------------------------------------

type Once struct {
	once sync.Once
	done bool
	m    Mutex
}

func (o *Once) Do(f func()) {
	if !vsched.Active() {
		o.once.Do(f)
		return
	}
	if o.done {
		return
	}
	o.m.Lock()
	defer o.m.Unlock()
	if !o.done {
		defer func() { o.done = true }()
		f()
	}
}

// ---- Cond ----------------------------------------------------------------------

type Cond struct {
	L       Locker
	c       *sync.Cond
	waiters []*condWaiter
}

type condWaiter struct{ woken bool }

func NewCond(l Locker) *Cond { return &Cond{L: l, c: sync.NewCond(l)} }

func (c *Cond) Wait() {
	if !vsched.Active() {
		c.c.Wait()
		return
	}
	w := &condWaiter{}
	c.waiters = append(c.waiters, w)
	c.L.Unlock()
	vsched.PointWhen("cond.wait", func() bool { return w.woken })
	c.L.Lock()
}

func (c *Cond) Signal() {
	if !vsched.Active() {
		c.c.Signal()
		return
	}
	if len(c.waiters) > 0 {
		c.waiters[0].woken = true
		c.waiters = c.waiters[1:]
	}
}

func (c *Cond) Broadcast() {
	if !vsched.Active() {
		c.c.Broadcast()
		return
	}
	for _, w := range c.waiters {
		w.woken = true
	}
	c.waiters = nil
}
