// Package vatomic mirrors sync/atomic; every operation is a scheduling point.
package vatomic

import (
	"sync/atomic"
	"unsafe"

	"verif/shim/vsched"
)

type Value = atomic.Value

func AddInt32(a *int32, d int32) int32     { vsched.Point("atomic"); return atomic.AddInt32(a, d) }
func AddInt64(a *int64, d int64) int64     { vsched.Point("atomic"); return atomic.AddInt64(a, d) }
func AddUint32(a *uint32, d uint32) uint32 { vsched.Point("atomic"); return atomic.AddUint32(a, d) }
func AddUint64(a *uint64, d uint64) uint64 { vsched.Point("atomic"); return atomic.AddUint64(a, d) }
func LoadInt32(a *int32) int32             { vsched.Point("atomic"); return atomic.LoadInt32(a) }
func LoadInt64(a *int64) int64             { vsched.Point("atomic"); return atomic.LoadInt64(a) }
func LoadUint32(a *uint32) uint32          { vsched.Point("atomic"); return atomic.LoadUint32(a) }
func LoadUint64(a *uint64) uint64          { vsched.Point("atomic"); return atomic.LoadUint64(a) }
func StoreInt32(a *int32, v int32)         { vsched.Point("atomic"); atomic.StoreInt32(a, v) }
func StoreInt64(a *int64, v int64)         { vsched.Point("atomic"); atomic.StoreInt64(a, v) }
func StoreUint32(a *uint32, v uint32)      { vsched.Point("atomic"); atomic.StoreUint32(a, v) }
func StoreUint64(a *uint64, v uint64)      { vsched.Point("atomic"); atomic.StoreUint64(a, v) }
func SwapInt32(a *int32, v int32) int32    { vsched.Point("atomic"); return atomic.SwapInt32(a, v) }
func SwapInt64(a *int64, v int64) int64    { vsched.Point("atomic"); return atomic.SwapInt64(a, v) }
func SwapUint32(a *uint32, v uint32) uint32 {
	vsched.Point("atomic")
	return atomic.SwapUint32(a, v)
}
func SwapUint64(a *uint64, v uint64) uint64 {
	vsched.Point("atomic")
	return atomic.SwapUint64(a, v)
}
func CompareAndSwapInt32(a *int32, o, n int32) bool {
	vsched.Point("atomic")
	return atomic.CompareAndSwapInt32(a, o, n)
}
func CompareAndSwapInt64(a *int64, o, n int64) bool {
	vsched.Point("atomic")
	return atomic.CompareAndSwapInt64(a, o, n)
}
func CompareAndSwapUint32(a *uint32, o, n uint32) bool {
	vsched.Point("atomic")
	return atomic.CompareAndSwapUint32(a, o, n)
}
func CompareAndSwapUint64(a *uint64, o, n uint64) bool {
	vsched.Point("atomic")
	return atomic.CompareAndSwapUint64(a, o, n)
}
func LoadPointer(a *unsafe.Pointer) unsafe.Pointer {
	vsched.Point("atomic")
	return atomic.LoadPointer(a)
}
func StorePointer(a *unsafe.Pointer, v unsafe.Pointer) {
	vsched.Point("atomic")
	atomic.StorePointer(a, v)
}
