// Package vtime mirrors package time.  With no scheduler installed it forwards
// to the real clock; under vsched, Now/Sleep/timers run on the virtual clock.
package vtime

import (
	"time"

	"verif/shim/vsched"
)

type (
	Time     = time.Time
	Duration = time.Duration
	Month    = time.Month
	Weekday  = time.Weekday
	Location = time.Location
)

const (
	Nanosecond  = time.Nanosecond
	Microsecond = time.Microsecond
	Millisecond = time.Millisecond
	Second      = time.Second
	Minute      = time.Minute
	Hour        = time.Hour

	RFC3339     = time.RFC3339
	RFC3339Nano = time.RFC3339Nano
	RFC1123     = time.RFC1123
	UnixDate    = time.UnixDate
)

var (
	UTC   = time.UTC
	Local = time.Local
)

// Offset is added to the real clock in pass-through mode (sequential harnesses
// that want to move time forward deterministically).
var Offset time.Duration

func Now() Time {
	if vsched.Active() {
		return vsched.VNow()
	}
	return time.Now().Add(Offset)
}

func Since(t Time) Duration { return Now().Sub(t) }
func Until(t Time) Duration { return t.Sub(Now()) }

func Unix(sec, nsec int64) Time { return time.Unix(sec, nsec) }
func Date(y int, m Month, d, h, mi, s, ns int, loc *Location) Time {
	return time.Date(y, m, d, h, mi, s, ns, loc)
}
func Parse(layout, value string) (Time, error)   { return time.Parse(layout, value) }
func ParseDuration(s string) (Duration, error)   { return time.ParseDuration(s) }
func LoadLocation(name string) (*Location, error) { return time.LoadLocation(name) }

func Sleep(d Duration) {
	if vsched.Active() {
		vsched.SleepCur(d)
		return
	}
	time.Sleep(d)
}

type Timer struct {
	C      <-chan Time
	c      chan Time
	real   *time.Timer
	cancel func() bool
}

func NewTimer(d Duration) *Timer {
	if !vsched.Active() {
		rt := time.NewTimer(d)
		return &Timer{C: rt.C, real: rt}
	}
	c := make(chan Time, 1)
	t := &Timer{C: c, c: c}
	t.cancel = vsched.AddTimer(d, func() {
		select {
		case c <- vsched.VNow():
		default:
		}
	})
	return t
}

func (t *Timer) Stop() bool {
	if t.real != nil {
		return t.real.Stop()
	}
	return t.cancel()
}

func (t *Timer) Reset(d Duration) bool {
	if t.real != nil {
		return t.real.Reset(d)
	}
	was := t.cancel()
	c := t.c
	t.cancel = vsched.AddTimer(d, func() {
		select {
		case c <- vsched.VNow():
		default:
		}
	})
	return was
}

func After(d Duration) <-chan Time { return NewTimer(d).C }

func AfterFunc(d Duration, f func()) *Timer {
	if !vsched.Active() {
		return &Timer{real: time.AfterFunc(d, f)}
	}
	t := &Timer{}
	t.cancel = vsched.AddTimer(d, func() { vsched.Go(f) })
	return t
}

type Ticker struct {
	C    <-chan Time
	c    chan Time
	real *time.Ticker
	stop bool
	d    Duration
}

func NewTicker(d Duration) *Ticker {
	if !vsched.Active() {
		rt := time.NewTicker(d)
		return &Ticker{C: rt.C, real: rt}
	}
	c := make(chan Time, 1)
	t := &Ticker{C: c, c: c, d: d}
	t.arm()
	return t
}

func (t *Ticker) arm() {
	vsched.AddTimer(t.d, func() {
		if t.stop {
			return
		}
		select {
		case t.c <- vsched.VNow():
		default:
		}
		t.arm()
	})
}

func (t *Ticker) Stop() {
	if t.real != nil {
		t.real.Stop()
		return
	}
	t.stop = true
}

func Tick(d Duration) <-chan Time { return NewTicker(d).C }
