// Package vsched is a cooperative scheduler for real goroutines (engine E2).
//
// When no scheduler is installed (Cur == nil) every entry point is a no-op or
// forwards to the real primitive, so rewritten code behaves like the original.
// When one is installed exactly one registered thread runs at a time; all
// others are parked on their baton.  Every hooked operation calls PointWhen
// (a scheduling point at which the caller is enabled iff cond() holds); the
// scheduler asks its Chooser which enabled thread (or pending timer) goes next.
package vsched

import (
	"fmt"
	"reflect"
	"sort"
	"strings"
	"time"
)

// Chooser decides: n alternatives, alternative 0 is the default.  costs[i] is
// the deviation cost of alternative i (0 = free).  kind is for diagnostics.
type Chooser interface {
	Choose(kind string, costs []int) int
}

type thread struct {
	id       int
	name     string
	wake     chan struct{}
	cond     func() bool // nil = enabled
	what     string      // what it waits for (diagnostics)
	done     bool
	daemon   bool
	sleeping bool
	wakeAt   time.Duration
}

type timer struct {
	at   time.Duration
	seq  int
	fire func()
	dead bool
}

// Sched is one execution's scheduler.
type Sched struct {
	ch       Chooser
	threads  []*thread
	cur      *thread
	timers   []*timer
	tseq     int
	Now      time.Duration // virtual time since T0
	T0       time.Time
	steps    int
	MaxSteps int
	aborting bool
	Outcome  string // "", "deadlock", "horizon", "panic: ..."
	Trace    []string
	KeepTrace bool
	finished chan struct{}
	closed   map[uintptr]bool
	// TimerCost is the deviation cost of firing a timer while a thread is enabled.
	TimerCost int
	// NoTimerWhileEnabled forbids firing timers while a thread is enabled
	// (pure discrete-event rule).
	NoTimerWhileEnabled bool
	Preemptions int
}

// Cur is the installed scheduler (nil = pass-through).
var Cur *Sched

type poison struct{}

// Active reports whether a scheduler is installed.
func Active() bool { return Cur != nil }

// Run executes body as thread 0 under a fresh scheduler driven by ch and
// returns the scheduler (outcome, trace).  Threads still parked when body
// returns are unwound (poisoned).
func Run(ch Chooser, maxSteps int, cfg func(*Sched), body func()) *Sched {
	s := &Sched{ch: ch, MaxSteps: maxSteps, finished: make(chan struct{}), closed: map[uintptr]bool{}, T0: time.Unix(1700000000, 0), TimerCost: 1}
	if cfg != nil {
		cfg(s)
	}
	Cur = s
	t0 := &thread{id: 0, name: "main", wake: make(chan struct{}, 1)}
	s.threads = append(s.threads, t0)
	s.cur = t0
	go func() {
		defer func() {
			if r := recover(); r != nil {
				if _, ok := r.(poison); !ok {
					s.Outcome = fmt.Sprintf("panic: %v", r)
				}
			}
			t0.done = true
			s.teardown()
			close(s.finished)
		}()
		body()
	}()
	<-s.finished
	Cur = nil
	return s
}

// teardown unwinds every thread that has not finished, one at a time.
func (s *Sched) teardown() {
	s.aborting = true
	for _, t := range s.threads {
		if t.done {
			continue
		}
		s.cur = t
		t.wake <- struct{}{}
		// the thread panics with poison at its parking point, unwinds, and
		// reports back through exitCh
		<-s.exitCh()
	}
}

var exitChan = make(chan struct{})

func (s *Sched) exitCh() chan struct{} { return exitChan }

// Go starts f as a new scheduled thread (or a plain goroutine in pass-through mode).
func Go(f func()) { GoNamed("", false, f) }

// GoDaemon starts a thread whose being blocked forever is not a deadlock.
func GoDaemon(f func()) { GoNamed("", true, f) }

func GoNamed(name string, daemon bool, f func()) {
	s := Cur
	if s == nil {
		go f()
		return
	}
	if s.aborting {
		return
	}
	t := &thread{id: len(s.threads), name: name, wake: make(chan struct{}, 1), daemon: daemon}
	s.threads = append(s.threads, t)
	go func() {
		<-t.wake
		defer func() {
			r := recover()
			t.done = true
			if s.aborting {
				exitChan <- struct{}{}
				return
			}
			if r != nil {
				if _, ok := r.(poison); !ok {
					s.Outcome = fmt.Sprintf("panic in thread %d: %v", t.id, r)
					// abort the execution: wake main with poison
					s.abortFrom(t)
					return
				}
			}
			// normal exit: hand over to somebody else
			s.handover(t)
		}()
		if s.aborting {
			panic(poison{})
		}
		f()
	}()
	// spawning is a scheduling point
	s.pointWhen("go", nil)
}

// abortFrom is called by a dying thread: the execution is over.  Main is
// poisoned so that Run returns.
func (s *Sched) abortFrom(t *thread) {
	s.aborting = true
	main := s.threads[0]
	if !main.done {
		s.cur = main
		main.wake <- struct{}{}
	}
}

// handover: the current thread finished; pick another one (never parks).
func (s *Sched) handover(t *thread) {
	nx := s.pick(true)
	if nx == nil {
		// the last runnable thread is gone while main still waits: deadlock
		s.Outcome = "deadlock: " + s.waitGraph()
		s.abortFrom(t)
		return
	}
	s.cur = nx
	nx.wake <- struct{}{}
}

// Point is an unconditional scheduling point.
func Point(kind string) {
	if s := Cur; s != nil {
		s.pointWhen(kind, nil)
	}
}

// Yield is a statement-level scheduling point inserted by vrewrite.
func Yield(where string) {
	if s := Cur; s != nil {
		s.pointWhen(where, nil)
	}
}

// PointWhen is a scheduling point at which the caller is enabled iff cond().
// On return cond() holds (nobody else ran in between).
func PointWhen(kind string, cond func() bool) {
	if s := Cur; s != nil {
		s.pointWhen(kind, cond)
	}
}

func (s *Sched) pointWhen(kind string, cond func() bool) {
	if s.aborting {
		// being unwound: never block, never schedule
		return
	}
	t := s.cur
	s.steps++
	if s.MaxSteps > 0 && s.steps > s.MaxSteps {
		s.Outcome = "horizon"
		s.abortSelf(t)
	}
	t.cond, t.what = cond, kind
	nx := s.pick(false)
	if nx == nil {
		// nothing enabled at all and no timers: deadlock (or only daemons left)
		s.Outcome = "deadlock: " + s.waitGraph()
		s.abortSelf(t)
	}
	if nx != t {
		s.cur = nx
		nx.wake <- struct{}{}
		<-t.wake
		if s.aborting {
			panic(poison{})
		}
	}
	t.cond, t.what = nil, ""
	if s.KeepTrace {
		s.Trace = append(s.Trace, fmt.Sprintf("T%d:%s", t.id, kind))
	}
}

// abortSelf ends the execution from the running thread t.
func (s *Sched) abortSelf(t *thread) {
	s.aborting = true
	if t.id == 0 {
		panic(poison{})
	}
	// wake main with poison, then unwind self when teardown reaches us
	main := s.threads[0]
	if !main.done {
		s.cur = main
		main.wake <- struct{}{}
	}
	<-t.wake
	panic(poison{})
}

func (s *Sched) enabled(t *thread) bool {
	if t.done {
		return false
	}
	if t.sleeping {
		return false
	}
	return t.cond == nil || t.cond()
}

// pick chooses the next thread to run.  exiting: the current thread is gone.
// Returns nil when nothing can run.
func (s *Sched) pick(exiting bool) *thread {
	for {
		var opts []*thread
		cur := s.cur
		curEnabled := !exiting && s.enabled(cur)
		if curEnabled {
			opts = append(opts, cur)
		}
		for _, t := range s.threads {
			if t != cur && s.enabled(t) {
				opts = append(opts, t)
			}
		}
		nt := s.nextTimer()
		if len(opts) == 0 {
			if nt == nil {
				return nil
			}
			// discrete-event rule: time jumps to the earliest timer for free
			s.fireTimer(nt)
			continue
		}
		timerOpt := nt != nil && !s.NoTimerWhileEnabled
		n := len(opts)
		if timerOpt {
			n++
		}
		if n == 1 {
			return opts[0]
		}
		costs := make([]int, n)
		for i := range opts {
			if curEnabled && i > 0 {
				costs[i] = 1 // switching away from a runnable thread = preemption
			}
		}
		if timerOpt {
			costs[n-1] = s.TimerCost
		}
		kind := "sched"
		if !curEnabled {
			kind = "sched-blocked"
		}
		c := s.ch.Choose(kind, costs)
		if c < 0 || c >= n {
			panic(fmt.Sprintf("vsched: chooser returned %d of %d", c, n))
		}
		if timerOpt && c == n-1 {
			s.fireTimer(nt)
			continue
		}
		if curEnabled && c > 0 {
			s.Preemptions++
		}
		return opts[c]
	}
}

func (s *Sched) waitGraph() string {
	var parts []string
	for _, t := range s.threads {
		if !t.done {
			parts = append(parts, fmt.Sprintf("T%d(%s) waits %s", t.id, t.name, t.what))
		}
	}
	return strings.Join(parts, "; ")
}

// ---- environment choices -------------------------------------------------------

// Choose is an environment answer in [0,n): alternative 0 is the default; each
// other answer costs `cost` deviations.  Pass-through mode returns 0.
func Choose(kind string, n int, cost int) int {
	s := Cur
	if s == nil || n <= 1 || s.aborting {
		return 0
	}
	costs := make([]int, n)
	for i := 1; i < n; i++ {
		costs[i] = cost
	}
	return s.ch.Choose(kind, costs)
}

// ---- virtual time ---------------------------------------------------------------

func (s *Sched) nextTimer() *timer {
	var best *timer
	for _, tm := range s.timers {
		if tm.dead {
			continue
		}
		if best == nil || tm.at < best.at || (tm.at == best.at && tm.seq < best.seq) {
			best = tm
		}
	}
	return best
}

func (s *Sched) fireTimer(tm *timer) {
	if tm.at > s.Now {
		s.Now = tm.at
	}
	tm.dead = true
	// compact
	live := s.timers[:0]
	for _, x := range s.timers {
		if !x.dead {
			live = append(live, x)
		}
	}
	s.timers = live
	tm.fire()
}

// AddTimer registers fire() to run at virtual time now+d; returns a cancel func
// reporting whether the timer was still pending.
func AddTimer(d time.Duration, fire func()) (cancel func() bool) {
	s := Cur
	if d < 0 {
		d = 0
	}
	s.tseq++
	tm := &timer{at: s.Now + d, seq: s.tseq, fire: fire}
	s.timers = append(s.timers, tm)
	return func() bool {
		if tm.dead {
			return false
		}
		tm.dead = true
		return true
	}
}

// SleepCur blocks the current thread for d of virtual time.
func SleepCur(d time.Duration) {
	s := Cur
	if s.aborting {
		return
	}
	t := s.cur
	t.sleeping = true
	AddTimer(d, func() { t.sleeping = false })
	s.pointWhen("sleep", nil)
}

// VNow returns the virtual wall clock.
func VNow() time.Time {
	s := Cur
	return s.T0.Add(s.Now)
}

// Advance moves virtual time forward without firing anything (harness use).
func Advance(d time.Duration) {
	if s := Cur; s != nil {
		s.Now += d
	}
}

// ---- channels ----------------------------------------------------------------------

func chanPtr(c interface{}) (reflect.Value, uintptr) {
	v := reflect.ValueOf(c)
	if v.Kind() != reflect.Chan {
		panic("vsched: not a channel")
	}
	return v, v.Pointer()
}

// RecvPoint: scheduling point before a receive; enabled iff a value is buffered
// or the channel is closed.  A nil channel blocks forever.
func RecvPoint(c interface{}) {
	s := Cur
	if s == nil {
		return
	}
	v, p := chanPtr(c)
	if v.IsNil() {
		s.pointWhen("recv-nil", func() bool { return false })
		return
	}
	s.pointWhen("recv", func() bool { return v.Len() > 0 || s.closed[p] })
}

// SendPoint: scheduling point before a send; enabled iff the buffer has room.
// Unbuffered sends are not modelled (none exist in the rewritten code).
func SendPoint(c interface{}) {
	s := Cur
	if s == nil {
		return
	}
	v, p := chanPtr(c)
	if v.Cap() == 0 {
		panic("vsched: send on an unbuffered channel is not modelled")
	}
	s.pointWhen("send", func() bool { return v.Len() < v.Cap() || s.closed[p] })
}

// Close closes the channel and records it.
func Close(c interface{}) {
	v, p := chanPtr(c)
	if s := Cur; s != nil {
		s.closed[p] = true
	}
	v.Close()
}

// SelCase describes one case of a rewritten select.
type SelCase struct {
	Ch   interface{}
	Send bool
}

func RecvCase(c interface{}) SelCase { return SelCase{Ch: c} }
func SendCase(c interface{}) SelCase { return SelCase{Ch: c, Send: true} }

// Select returns the index of a ready case (an explored choice when several are
// ready), or -1 when hasDefault and none is ready.  The caller then performs
// the real operation of that case, which cannot block.
func Select(hasDefault bool, cases ...SelCase) int {
	s := Cur
	ready := func() []int {
		var r []int
		for i, c := range cases {
			v := reflect.ValueOf(c.Ch)
			if v.IsNil() {
				continue
			}
			if c.Send {
				if v.Len() < v.Cap() {
					r = append(r, i)
				}
			} else if v.Len() > 0 || (s != nil && s.closed[v.Pointer()]) {
				r = append(r, i)
			}
		}
		return r
	}
	if s == nil {
		// pass-through: poll (only used by sequential harnesses)
		for {
			if r := ready(); len(r) > 0 {
				return r[0]
			}
			if hasDefault {
				return -1
			}
			time.Sleep(50 * time.Microsecond)
		}
	}
	if s.aborting {
		if r := ready(); len(r) > 0 {
			return r[0]
		}
		panic(poison{})
	}
	if hasDefault {
		s.pointWhen("select", nil)
	} else {
		s.pointWhen("select", func() bool { return len(ready()) > 0 })
	}
	r := ready()
	if len(r) == 0 {
		return -1
	}
	if len(r) == 1 {
		return r[0]
	}
	sort.Ints(r)
	costs := make([]int, len(r)) // which ready case wins is free nondeterminism
	return r[s.ch.Choose("select-case", costs)]
}

// ---- helpers for shims -------------------------------------------------------------

// CurID returns the running thread's id (-1 in pass-through mode).
func CurID() int {
	if s := Cur; s != nil {
		return s.cur.id
	}
	return -1
}

// Aborting reports whether the execution is being torn down.
func Aborting() bool {
	s := Cur
	return s != nil && s.aborting
}

// SortedStringKeys returns the keys of a map whose key type has a string
// underlying type, sorted.  Inserted by vrewrite (sorted_range) so that map
// iteration order — which Go randomises — is deterministic under exploration.
func SortedStringKeys(m interface{}) []string {
	v := reflect.ValueOf(m)
	keys := make([]string, 0, v.Len())
	for _, k := range v.MapKeys() {
		keys = append(keys, k.String())
	}
	sort.Strings(keys)
	return keys
}
