package mc

// Product calls f with every index vector over the given domain sizes, in
// lexicographic order (simplest first when domains are ordered simplest first).
// f returns false to stop.
func Product(sizes []int, f func(ix []int) bool) {
	for _, s := range sizes {
		if s == 0 {
			return
		}
	}
	ix := make([]int, len(sizes))
	for {
		if !f(ix) {
			return
		}
		i := len(ix) - 1
		for ; i >= 0; i-- {
			ix[i]++
			if ix[i] < sizes[i] {
				break
			}
			ix[i] = 0
		}
		if i < 0 {
			return
		}
	}
}

// Sequences calls f with every sequence over an alphabet of size k with length
// in [minLen,maxLen], shortest first.
func Sequences(k, minLen, maxLen int, f func(seq []int) bool) {
	for l := minLen; l <= maxLen; l++ {
		sizes := make([]int, l)
		for i := range sizes {
			sizes[i] = k
		}
		if l == 0 {
			if !f(nil) {
				return
			}
			continue
		}
		stop := false
		Product(sizes, func(ix []int) bool {
			if !f(ix) {
				stop = true
				return false
			}
			return true
		})
		if stop {
			return
		}
	}
}

// Subsets calls f with every subset (as a bitmask) of an n-element set.
func Subsets(n int, f func(mask int) bool) {
	for m := 0; m < 1<<uint(n); m++ {
		if !f(m) {
			return
		}
	}
}

// Permutations calls f with every permutation of 0..n-1.
func Permutations(n int, f func(p []int) bool) {
	p := make([]int, n)
	for i := range p {
		p[i] = i
	}
	var rec func(k int) bool
	rec = func(k int) bool {
		if k == n {
			return f(p)
		}
		for i := k; i < n; i++ {
			p[k], p[i] = p[i], p[k]
			if !rec(k + 1) {
				return false
			}
			p[k], p[i] = p[i], p[k]
		}
		return true
	}
	rec(0)
}
