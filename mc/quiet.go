package mc

import (
	"os"

	"github.com/chrislusf/seaweedfs/weed/glog"
)

// QuietGlog silences the repository's glog (INFO/WARNING/ERROR go nowhere: no
// stderr noise, no log files in the temp dir) through the export-only hook
// glog.DiscardLogsV.  FATAL lines and runtime panics still reach stderr, so
// worker crash attribution keeps working.  Set VERIF_GLOG=1 to keep the log.
func QuietGlog() {
	if os.Getenv("VERIF_GLOG") != "" {
		return
	}
	glog.DiscardLogsV()
}
