package mc

import (
	"flag"
	"os"
)

// QuietGlog silences the repository's glog without creating log files: glog is
// told to log to stderr only, and the Go-level os.Stderr is pointed at
// /dev/null.  Runtime panics and fatal errors still reach the real fd 2 (they
// do not go through os.Stderr), so worker crash attribution keeps working.
// Set VERIF_GLOG=1 to keep the log.
func QuietGlog() {
	if os.Getenv("VERIF_GLOG") != "" {
		return
	}
	flag.Set("logtostderr", "true")
	flag.Set("alsologtostderr", "false")
	if f, err := os.OpenFile(os.DevNull, os.O_WRONLY, 0); err == nil {
		os.Stderr = f
	}
}
