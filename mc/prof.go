package mc

import (
	"os"
	"runtime/pprof"
)

// StartProfile writes a CPU profile to $VERIF_PROF (debug aid).
func StartProfile() func() {
	p := os.Getenv("VERIF_PROF")
	if p == "" {
		return func() {}
	}
	f, err := os.Create(p)
	if err != nil {
		return func() {}
	}
	pprof.StartCPUProfile(f)
	return func() { pprof.StopCPUProfile(); f.Close() }
}
