package mc

// System is an explicit-state system over the real implementation.  Live
// objects are not cloned: a successor is built by replaying the event path on
// a fresh instance.
type System interface {
	// Reset builds a fresh instance (and a fresh reference model).
	Reset()
	// Events lists the events enabled in the current state (small finite menu).
	Events() []string
	// Apply executes one event on the real object and the reference model and
	// checks the oracle; it returns a description of a violation or "".
	Apply(ev string) (violation string)
	// Canon returns the canonical, property-relevant form of the current state,
	// including the observable shape of the real object.
	Canon() string
	// Close releases the instance.
	Close()
}

type BFSResult struct {
	States      int64
	Transitions int64
	MaxDepth    int
	Complete    bool
}

// BFS explores every event sequence up to unmergedDepth without merging and
// continues with state merging on Canon() up to maxDepth.  onViolation is
// called with the path and message; exploration below a violating transition
// stops.  expired may stop the search at a level boundary.
func BFS(sys System, unmergedDepth, maxDepth int, expired func() bool,
	onViolation func(path []string, msg string)) BFSResult {
	res := BFSResult{Complete: true}
	seen := map[string]struct{}{}
	sys.Reset()
	seen[sys.Canon()] = struct{}{}
	sys.Close()
	res.States = 1
	frontier := [][]string{{}}
	for depth := 0; depth < maxDepth && len(frontier) > 0; depth++ {
		if expired != nil && expired() {
			res.Complete = false
			break
		}
		var next [][]string
		for _, path := range frontier {
			// obtain the menu at this state
			sys.Reset()
			bad := false
			for _, ev := range path {
				if v := sys.Apply(ev); v != "" {
					bad = true
					break
				}
			}
			if bad {
				sys.Close()
				continue
			}
			evs := sys.Events()
			sys.Close()
			for _, ev := range evs {
				sys.Reset()
				for _, e := range path {
					sys.Apply(e)
				}
				v := sys.Apply(ev)
				res.Transitions++
				np := append(append([]string{}, path...), ev)
				if v != "" {
					onViolation(np, v)
					sys.Close()
					continue
				}
				k := sys.Canon()
				sys.Close()
				if depth+1 <= unmergedDepth {
					if _, ok := seen[k]; !ok {
						seen[k] = struct{}{}
						res.States++
					}
					next = append(next, np)
					continue
				}
				if _, ok := seen[k]; !ok {
					seen[k] = struct{}{}
					res.States++
					next = append(next, np)
				}
			}
		}
		frontier = next
		res.MaxDepth = depth + 1
	}
	return res
}
