package mc

import (
	"fmt"

	"verif/shim/vsched"
)

// Engine E1: stateless depth-first search over choice sequences with a
// deviation bound.  An execution is a deterministic function of its choice
// sequence; choice 0 is always the default (keep running the current thread /
// default environment answer) and costs nothing.

// Exec is one recorded execution.
type Exec struct {
	Choices []int
	Ns      []int    // number of alternatives at each choice point
	Kinds   []string // kind of each choice point
	Costs   [][]int
	Cost    int // total deviation cost
	Sched   *vsched.Sched
}

type recChooser struct {
	prefix   []int
	expN     []int // expected number of alternatives for the prefix positions
	x        *Exec
	diverged string
}

func (c *recChooser) Choose(kind string, costs []int) int {
	i := len(c.x.Choices)
	pick := 0
	if i < len(c.prefix) {
		pick = c.prefix[i]
		if i < len(c.expN) && c.expN[i] != len(costs) {
			c.diverged = fmt.Sprintf("choice point %d: %d alternatives now, %d when recorded (%s)", i, len(costs), c.expN[i], kind)
			pick = 0
		}
		if pick >= len(costs) {
			c.diverged = fmt.Sprintf("choice point %d: choice %d out of range %d (%s)", i, pick, len(costs), kind)
			pick = 0
		}
	}
	c.x.Choices = append(c.x.Choices, pick)
	c.x.Ns = append(c.x.Ns, len(costs))
	c.x.Kinds = append(c.x.Kinds, kind)
	c.x.Costs = append(c.x.Costs, costs)
	c.x.Cost += costs[pick]
	return pick
}

// ExploreStats summarises a search.
type ExploreStats struct {
	Executions int64
	Points     int64 // choice points visited (transitions of the schedule tree)
	ByCost     map[int]int64
	MaxLen     int
	Complete   bool
	Outcomes   map[string]int64
}

// RunOne executes body under the scheduler following the given choice sequence.
func RunOne(prefix, expN []int, maxSteps int, cfg func(*vsched.Sched), body func()) (*Exec, string) {
	x := &Exec{}
	ch := &recChooser{prefix: prefix, expN: expN, x: x}
	x.Sched = vsched.Run(ch, maxSteps, cfg, body)
	return x, ch.diverged
}

// Explore enumerates every execution of body whose deviation cost is <= bound.
// body must build a fresh system each time.  after is called once per
// execution (oracle); stop may end the search early (budget) — then Complete is
// false.  A replay divergence is an infrastructure error.
func Explore(bound, maxSteps int, cfg func(*vsched.Sched), body func(), after func(x *Exec), stop func() bool) ExploreStats {
	st := ExploreStats{ByCost: map[int]int64{}, Outcomes: map[string]int64{}, Complete: true}
	type item struct {
		prefix []int
		expN   []int
	}
	stack := []item{{}}
	for len(stack) > 0 {
		if stop != nil && st.Executions%64 == 0 && stop() {
			st.Complete = false
			break
		}
		it := stack[len(stack)-1]
		stack = stack[:len(stack)-1]
		x, div := RunOne(it.prefix, it.expN, maxSteps, cfg, body)
		if div != "" {
			Fatal("nondeterministic replay: %s (prefix %v)", div, it.prefix)
		}
		st.Executions++
		st.Points += int64(len(x.Choices) - len(it.prefix))
		st.ByCost[x.Cost]++
		if len(x.Choices) > st.MaxLen {
			st.MaxLen = len(x.Choices)
		}
		oc := x.Sched.Outcome
		if len(oc) > 8 && oc[:8] == "deadlock" {
			oc = "deadlock"
		}
		st.Outcomes[oc]++
		after(x)
		// branch on every alternative past the prefix whose cost fits the bound
		cost := 0
		for i := 0; i < len(x.Choices); i++ {
			if i >= len(it.prefix) {
				for alt := len(x.Costs[i]) - 1; alt >= 1; alt-- {
					if cost+x.Costs[i][alt] <= bound {
						np := append(append([]int{}, x.Choices[:i]...), alt)
						stack = append(stack, item{prefix: np, expN: append([]int{}, x.Ns[:i+1]...)})
					}
				}
			}
			cost += x.Costs[i][x.Choices[i]]
		}
	}
	return st
}
