// Package racepass runs the free-running -race binary (group "race") and turns
// its reports into violations (classes named after the racing functions).
package racepass

import (
	"bytes"
	"fmt"
	"os"
	"os/exec"
	"regexp"
	"sort"
	"strings"

	"verif/mc"
)

var frameRe = regexp.MustCompile(`^\s+(github\.com/chrislusf/seaweedfs/[^\s(]+(?:\([^)]*\))?[^\s(]*)\(`)

// Run executes `<race binary> <harness> <rounds>` and reports every data race
// whose stack mentions pkgFilter.  It only runs in the parent process.
func Run(r *mc.Run, harness string, rounds int, pkgFilter string) {
	if r.ChildPhase() != "" || r.Replay != "" {
		return
	}
	exe := os.Getenv("VERIF_BIN_race")
	if exe == "" {
		mc.Fatal("race pass: VERIF_BIN_race not set (run through ./v)")
	}
	cmd := exec.Command(exe, harness, fmt.Sprint(rounds))
	cmd.Env = append(os.Environ(), "GORACE=halt_on_error=0 exitcode=0 history_size=2")
	var out bytes.Buffer
	cmd.Stdout = &out
	cmd.Stderr = &out
	if err := cmd.Run(); err != nil {
		mc.Fatal("race pass %s failed to run: %v\n%s", harness, err, tail(out.String(), 2000))
	}
	if !strings.Contains(out.String(), "race pass done") {
		mc.Fatal("race pass %s did not complete:\n%s", harness, tail(out.String(), 2000))
	}
	reports := strings.Split(out.String(), "WARNING: DATA RACE")
	classes := map[string]string{}
	for _, rep := range reports[1:] {
		if !strings.Contains(rep, pkgFilter) {
			continue
		}
		// first repository frame of each of the two accesses
		var fns []string
		sections := regexp.MustCompile(`(?m)^(Read|Write|Previous read|Previous write) at `).Split(rep, -1)
		for _, sec := range sections[1:] {
			for _, ln := range strings.Split(sec, "\n") {
				if m := frameRe.FindStringSubmatch(ln); m != nil {
					f := m[1]
					f = strings.TrimPrefix(f, "github.com/chrislusf/seaweedfs/weed/")
					fns = append(fns, f)
					break
				}
				if strings.HasPrefix(ln, "Goroutine ") {
					break
				}
			}
			if len(fns) == 2 {
				break
			}
		}
		if len(fns) == 0 {
			continue
		}
		sort.Strings(fns)
		cls := "data-race:" + strings.Join(fns, "|")
		if _, ok := classes[cls]; !ok {
			classes[cls] = tail(rep, 1500)
		}
	}
	r.Set("race_pass", map[string]interface{}{"harness": harness, "rounds": rounds, "reports": len(reports) - 1, "distinct_race_classes": len(classes),
		"note": "free-running -race run of the same scenario with real goroutines; a dynamic detector, not enumeration"})
	var keys []string
	for k := range classes {
		keys = append(keys, k)
	}
	sort.Strings(keys)
	for _, k := range keys {
		r.Violate(k, "the race detector reports unsynchronised accesses", map[string]interface{}{"kind": "race", "harness": harness, "report": classes[k]}, nil)
	}
}

func tail(s string, n int) string {
	if len(s) > n {
		return s[len(s)-n:]
	}
	return s
}
