// Package mc is the shared driver of every check: argument handling, case
// accounting, evidence, known findings, replay files, sharding over worker
// subprocesses with crash isolation.
package mc

import (
	"bufio"
	"crypto/sha1"
	"encoding/hex"
	"encoding/json"
	"fmt"
	"os"
	"os/exec"
	"path/filepath"
	"runtime"
	"runtime/debug"
	"sort"
	"strconv"
	"strings"
	"sync"
	"syscall"
	"time"
)

const VerifDir = "/verif"

// OutDir is where evidence/ and replays/ are written: /verif, or VERIF_OUT when a
// tree other than /repo is being checked (seeded changes in scratch worktrees).
func OutDir() string {
	if d := os.Getenv("VERIF_OUT"); d != "" {
		return d
	}
	return VerifDir
}

// Violation is one failing case.
type Violation struct {
	Class   string      `json:"class"`
	Msg     string      `json:"msg"`
	Witness interface{} `json:"witness"`
}

type partial struct {
	Evals       int64                  `json:"evals"`
	States      int64                  `json:"states"`
	Transitions int64                  `json:"transitions"`
	Distinct    []string               `json:"distinct"`
	Samples     []interface{}          `json:"samples"`
	Violations  []Violation            `json:"violations"`
	Extra       map[string]interface{} `json:"extra"`
	ExtraSum    map[string]int64       `json:"extra_sum"`
	NotExh      []string               `json:"not_exhaustive"`
	Assumptions []string               `json:"assumptions"`
}

// Run is the state of one check invocation.
type Run struct {
	ID     string
	Level  string // exploration | fault_enumeration | model_checking
	Tier   string
	Seed   int
	Replay string // path of a replay file, "" when exploring
	Rule   string
	// WorkerProcs, when > 0, is the GOMAXPROCS of Parallel worker processes
	// (cooperative-scheduler checks run fastest with 1).
	WorkerProcs int

	mu          sync.Mutex
	start       time.Time
	deadline    time.Time
	evals       int64
	states      int64
	transitions int64
	distinct    map[string]struct{}
	samples     []interface{}
	sampleKeys  map[string]int
	violations  []Violation
	extra       map[string]interface{}
	extraSum    map[string]int64
	notExh      []string
	assumptions []string

	// child (worker) mode
	childPhase string
	childShard int
	childOut   string
	childSkip  int64
	journal    *os.File
	caseIdx    int64
	inBody     bool
}

// Main runs a check.  args: <tier>|--replay <path>.
func Main(id, level, rule string, body func(r *Run)) {
	debug.SetMaxStack(256 << 20)
	r := &Run{ID: id, Level: level, Rule: rule, Tier: "quick", start: time.Now(),
		distinct: map[string]struct{}{}, sampleKeys: map[string]int{}, extra: map[string]interface{}{}, extraSum: map[string]int64{}}
	args := os.Args[1:]
	// the group binary is invoked as: bin <id> <tier> ; the dispatcher strips <id>
	for i := 0; i < len(args); i++ {
		switch args[i] {
		case "quick", "thorough":
			r.Tier = args[i]
		case "--replay":
			if i+1 < len(args) {
				r.Replay = args[i+1]
				i++
			}
		}
	}
	if t := os.Getenv("VERIF_TIER"); t == "quick" || t == "thorough" {
		if len(args) == 0 {
			r.Tier = t
		}
	}
	if s := os.Getenv("VERIF_SEED"); s != "" {
		r.Seed, _ = strconv.Atoi(s)
	}
	budget := 20 * time.Minute
	if r.Tier == "quick" {
		budget = 4 * time.Minute
	}
	if b := os.Getenv("VERIF_BUDGET_S"); b != "" {
		if n, err := strconv.Atoi(b); err == nil {
			budget = time.Duration(n) * time.Second
		}
	}
	r.deadline = r.start.Add(budget)
	if ph := os.Getenv("VERIF_CHILD_PHASE"); ph != "" {
		r.childPhase = ph
		r.childShard, _ = strconv.Atoi(os.Getenv("VERIF_CHILD_SHARD"))
		r.childOut = os.Getenv("VERIF_CHILD_OUT")
		r.childSkip, _ = strconv.ParseInt(os.Getenv("VERIF_CHILD_SKIP"), 10, 64)
		if dl := os.Getenv("VERIF_CHILD_DEADLINE"); dl != "" {
			if n, err := strconv.ParseInt(dl, 10, 64); err == nil {
				r.deadline = time.Unix(n, 0)
			}
		}
	}
	go memoryWatchdog(r)
	body(r)
	if r.childPhase != "" {
		// a child whose phase was never reached: infrastructure error
		fmt.Fprintf(os.Stderr, "child phase %q not reached\n", r.childPhase)
		os.Exit(2)
	}
	r.finish()
}

// ChildPhase is the Parallel phase this process is a worker of ("" in the parent).
func (r *Run) ChildPhase() string { return r.childPhase }

// memoryWatchdog stops a process whose memory runs away (a changed tree can turn a
// tree walk into an endless one) before the kernel's OOM killer takes the machine:
// a worker dies with a message (its parent attributes the death to the journalled
// case, i.e. a crash-class violation); the main process exits 2.
func memoryWatchdog(r *Run) {
	limit := uint64(24) << 30
	if g := os.Getenv("VERIF_MEM_GB"); g != "" {
		if n, err := strconv.Atoi(g); err == nil && n > 0 {
			limit = uint64(n) << 30
		}
	}
	var ms runtime.MemStats
	for {
		time.Sleep(500 * time.Millisecond)
		runtime.ReadMemStats(&ms)
		if ms.Sys > limit {
			if r.childPhase != "" {
				fmt.Fprintf(os.Stderr, "fatal error: verif memory watchdog: %d MiB in use\n", ms.Sys>>20)
				os.Exit(3)
			}
			fmt.Printf("INFRA-ERROR property=%s memory watchdog: %d MiB in use by the main process\n", r.ID, ms.Sys>>20)
			os.Exit(2)
		}
	}
}

func (r *Run) Quick() bool    { return r.Tier == "quick" }
func (r *Run) Thorough() bool { return r.Tier == "thorough" }

// Pick returns q in the quick tier and t in the thorough tier.
func (r *Run) Pick(q, t int) int {
	if r.Quick() {
		return q
	}
	return t
}

// Expired reports whether the wall-clock budget is used up.  Budgets only ever
// stop exploration early (exhaustive:false); no oracle depends on them.
func (r *Run) Expired() bool { return time.Now().After(r.deadline) }

// NotExhaustive records that some part of the announced space was not covered.
func (r *Run) NotExhaustive(why string) {
	r.mu.Lock()
	defer r.mu.Unlock()
	for _, w := range r.notExh {
		if w == why {
			return
		}
	}
	r.notExh = append(r.notExh, why)
}

func (r *Run) Assume(s string) {
	r.mu.Lock()
	defer r.mu.Unlock()
	for _, w := range r.assumptions {
		if w == s {
			return
		}
	}
	r.assumptions = append(r.assumptions, s)
}

// Case counts one executed case.  class identifies (input class, observation)
// for the distinct_nontrivial count; "" counts the evaluation only.
func (r *Run) Case(class string) {
	r.mu.Lock()
	r.evals++
	if class != "" {
		r.distinct[class] = struct{}{}
	}
	r.mu.Unlock()
}

// Cases counts n executed cases at once.
func (r *Run) Cases(n int64) {
	r.mu.Lock()
	r.evals += n
	r.mu.Unlock()
}

func (r *Run) Distinct(class string) {
	r.mu.Lock()
	r.distinct[class] = struct{}{}
	r.mu.Unlock()
}

func (r *Run) AddStates(n int64) {
	r.mu.Lock()
	r.states += n
	r.mu.Unlock()
}
func (r *Run) AddTransitions(n int64) {
	r.mu.Lock()
	r.transitions += n
	r.mu.Unlock()
}

// Sample keeps at most 3 samples per kind.
func (r *Run) Sample(kind string, v interface{}) {
	r.mu.Lock()
	defer r.mu.Unlock()
	if r.sampleKeys[kind] >= 3 || len(r.samples) >= 24 {
		return
	}
	r.sampleKeys[kind]++
	r.samples = append(r.samples, map[string]interface{}{"kind": kind, "case": v})
}

// Set stores an extra coverage key (last writer wins; parent merges children by key).
func (r *Run) Set(key string, v interface{}) {
	r.mu.Lock()
	r.extra[key] = v
	r.mu.Unlock()
}

// Add accumulates an extra integer coverage key (summed over shards).
func (r *Run) Add(key string, n int64) {
	r.mu.Lock()
	r.extraSum[key] += n
	r.mu.Unlock()
}

// Violate records a failing case.  recheck, when non-nil, re-executes the case
// and reports whether it fails again in the same way; it is run 5 times and a
// verdict that does not reproduce is an infrastructure error (exit 2).
func (r *Run) Violate(class, msg string, witness interface{}, recheck func() bool) {
	if recheck != nil {
		for i := 0; i < 5; i++ {
			if !recheck() {
				fmt.Printf("INFRA-ERROR property=%s non-reproducible verdict class=%s msg=%s witness=%s\n", r.ID, class, msg, js(witness))
				os.Exit(2)
			}
		}
	}
	r.mu.Lock()
	defer r.mu.Unlock()
	n := 0
	for _, v := range r.violations {
		if v.Class == class {
			n++
		}
	}
	if n >= 3 { // keep 3 witnesses per class
		r.extraSum["violating_cases_not_kept"]++
		return
	}
	r.violations = append(r.violations, Violation{Class: class, Msg: msg, Witness: witness})
}

func js(v interface{}) string {
	b, err := json.Marshal(v)
	if err != nil {
		return fmt.Sprintf("%+v", v)
	}
	return string(b)
}

// JS is a helper for checks.
func JS(v interface{}) string { return js(v) }

// Begin journals the start of a case in worker mode (so that a crash can be
// attributed) and returns false if the case must be skipped (already handled
// before a worker restart).
func (r *Run) Begin(c interface{}) bool {
	if r.journal == nil {
		return true
	}
	r.mu.Lock()
	defer r.mu.Unlock()
	idx := r.caseIdx
	r.caseIdx++
	if idx < r.childSkip {
		return false
	}
	fmt.Fprintf(r.journal, "B %d %s\n", idx, js(c))
	return true
}

// Go runs body(i) for i in [0,n) on up to `workers` goroutines.
func (r *Run) Go(n, workers int, body func(i int)) {
	if workers > n {
		workers = n
	}
	if workers < 1 {
		workers = 1
	}
	var wg sync.WaitGroup
	ch := make(chan int)
	for w := 0; w < workers; w++ {
		wg.Add(1)
		go func() {
			defer wg.Done()
			for i := range ch {
				body(i)
			}
		}()
	}
	for i := 0; i < n; i++ {
		ch <- i
	}
	close(ch)
	wg.Wait()
}

func (r *Run) snapshot() partial {
	p := partial{Evals: r.evals, States: r.states, Transitions: r.transitions, Samples: r.samples,
		Violations: r.violations, Extra: r.extra, ExtraSum: r.extraSum, NotExh: r.notExh, Assumptions: r.assumptions}
	for k := range r.distinct {
		p.Distinct = append(p.Distinct, k)
	}
	sort.Strings(p.Distinct)
	return p
}

func (r *Run) merge(p partial) {
	r.mu.Lock()
	defer r.mu.Unlock()
	r.evals += p.Evals
	r.states += p.States
	r.transitions += p.Transitions
	for _, k := range p.Distinct {
		r.distinct[k] = struct{}{}
	}
	for _, s := range p.Samples {
		if len(r.samples) < 24 {
			r.samples = append(r.samples, s)
		}
	}
	for _, v := range p.Violations {
		n := 0
		for _, w := range r.violations {
			if w.Class == v.Class {
				n++
			}
		}
		if n < 3 {
			r.violations = append(r.violations, v)
		}
	}
	for k, v := range p.Extra {
		r.extra[k] = v
	}
	for k, v := range p.ExtraSum {
		r.extraSum[k] += v
	}
	for _, w := range p.NotExh {
		dup := false
		for _, x := range r.notExh {
			if x == w {
				dup = true
			}
		}
		if !dup {
			r.notExh = append(r.notExh, w)
		}
	}
	for _, w := range p.Assumptions {
		dup := false
		for _, x := range r.assumptions {
			if x == w {
				dup = true
			}
		}
		if !dup {
			r.assumptions = append(r.assumptions, w)
		}
	}
}

// Parallel runs body(shard, n) in n worker subprocesses (at most 16 at a time).
// A worker that dies is restarted after the case it died in, which is recorded
// as a violation of class "crash:<phase>" unless classify returns another class.
// In the body, call r.Begin(case) before each case.
func (r *Run) Parallel(phase string, n int, body func(shard, n int)) {
	r.ParallelC(phase, n, body, nil)
}

// CrashClassifier maps the journalled case in which a worker died (and the tail
// of its stderr) to a finding class.
type CrashClassifier func(caseJSON string, stderrTail string) (class string, msg string)

func (r *Run) ParallelC(phase string, n int, body func(shard, n int), classify CrashClassifier) {
	r.parallel("", phase, n, body, classify)
}

// ParallelExe is Parallel with the workers running another build of the same
// group (e.g. the -tags 5BytesOffset twin, path in env VERIF_BIN_<group>): the
// same check code runs there and executes the body of this phase.
func (r *Run) ParallelExe(exe, phase string, n int, body func(shard, n int)) {
	if exe == "" {
		Fatal("ParallelExe: no binary for phase %s (VERIF_BIN_<group> not set; run through ./v)", phase)
	}
	r.parallel(exe, phase, n, body, nil)
}

func (r *Run) parallel(otherExe, phase string, n int, body func(shard, n int), classify CrashClassifier) {
	if (r.Replay != "" || os.Getenv("VERIF_NOFORK") != "") && otherExe == "" {
		for s := 0; s < n; s++ {
			body(s, n)
		}
		return
	}
	if r.childPhase != "" {
		if r.childPhase != phase {
			return
		}
		// worker: reset accounting, run, dump, exit
		r.mu.Lock()
		r.evals, r.states, r.transitions = 0, 0, 0
		r.distinct = map[string]struct{}{}
		r.samples, r.violations = nil, nil
		r.sampleKeys = map[string]int{}
		r.extra, r.extraSum = map[string]interface{}{}, map[string]int64{}
		r.notExh, r.assumptions = nil, nil
		r.mu.Unlock()
		j, err := os.OpenFile(r.childOut+".journal", os.O_CREATE|os.O_WRONLY|os.O_APPEND, 0644)
		if err != nil {
			fmt.Fprintln(os.Stderr, "journal:", err)
			os.Exit(2)
		}
		r.journal = j
		body(r.childShard, n)
		j.Close()
		r.mu.Lock()
		p := r.snapshot()
		r.mu.Unlock()
		b, _ := json.Marshal(p)
		if err := os.WriteFile(r.childOut, b, 0644); err != nil {
			fmt.Fprintln(os.Stderr, "partial:", err)
			os.Exit(2)
		}
		os.Exit(0)
	}
	// parent
	tmp, err := os.MkdirTemp("", "verif-"+r.ID+"-"+phase+"-")
	if err != nil {
		fmt.Fprintln(os.Stderr, err)
		os.Exit(2)
	}
	defer os.RemoveAll(tmp)
	exe, _ := os.Executable()
	if otherExe != "" {
		exe = otherExe
	}
	sem := make(chan struct{}, 16)
	var wg sync.WaitGroup
	for s := 0; s < n; s++ {
		wg.Add(1)
		go func(s int) {
			defer wg.Done()
			sem <- struct{}{}
			defer func() { <-sem }()
			r.runWorker(exe, tmp, phase, s, classify)
		}(s)
	}
	wg.Wait()
}

func (r *Run) runWorker(exe, tmp, phase string, s int, classify CrashClassifier) {
	skip := int64(0)
	crashes := 0
	for attempt := 0; ; attempt++ {
		out := filepath.Join(tmp, fmt.Sprintf("shard%d.%d.json", s, attempt))
		cmd := exec.Command(exe, os.Args[1:]...)
		cmd.Env = append(os.Environ(),
			"VERIF_CHILD_PHASE="+phase,
			"VERIF_CHILD_SHARD="+strconv.Itoa(s),
			"VERIF_CHILD_OUT="+out,
			"VERIF_CHILD_SKIP="+strconv.FormatInt(skip, 10),
			"VERIF_CHILD_DEADLINE="+strconv.FormatInt(r.deadline.Unix(), 10),
		)
		if r.WorkerProcs > 0 {
			cmd.Env = append(cmd.Env, "GOMAXPROCS="+strconv.Itoa(r.WorkerProcs))
		}
		errf, _ := os.Create(out + ".stderr")
		cmd.Stderr = errf
		cmd.Stdout = errf
		done := make(chan error, 1)
		if err := cmd.Start(); err != nil {
			fmt.Fprintln(os.Stderr, "worker start:", err)
			os.Exit(2)
		}
		go func() { done <- cmd.Wait() }()
		var werr error
		hang := false
		// per-worker hang guard: a worker may run until the run deadline + 2 min
		select {
		case werr = <-done:
		case <-time.After(time.Until(r.deadline) + 2*time.Minute):
			cmd.Process.Kill()
			werr = <-done
			hang = true
		}
		errf.Close()
		if b, err := os.ReadFile(out); err == nil && werr == nil {
			var p partial
			if json.Unmarshal(b, &p) == nil {
				r.merge(p)
				return
			}
		}
		// crashed: find the last begun case
		lastIdx, lastCase := int64(-1), ""
		if f, err := os.Open(out + ".journal"); err == nil {
			sc := bufio.NewScanner(f)
			sc.Buffer(make([]byte, 1<<20), 1<<26)
			for sc.Scan() {
				ln := sc.Text()
				if strings.HasPrefix(ln, "B ") {
					rest := ln[2:]
					sp := strings.IndexByte(rest, ' ')
					if sp > 0 {
						lastIdx, _ = strconv.ParseInt(rest[:sp], 10, 64)
						lastCase = rest[sp+1:]
					}
				}
			}
			f.Close()
		}
		tail := tailOf(out+".stderr", 4000)
		if lastIdx < 0 || crashes > 200 {
			fmt.Printf("INFRA-ERROR property=%s worker %s/%d died outside a case (%v, hang=%v)\n%s\n", r.ID, phase, s, werr, hang, tail)
			os.Exit(2)
		}
		crashes++
		class, msg := "crash:"+phase, fmt.Sprintf("worker died (%v, hang=%v)", werr, hang)
		if classify != nil {
			if c, m := classify(lastCase, tail); c != "" {
				class, msg = c, m
			}
		}
		var w interface{}
		if json.Unmarshal([]byte(lastCase), &w) != nil {
			w = lastCase
		}
		r.Violate(class, msg+" | "+lastLines(tail, 6), w, nil)
		r.Case("crash|" + class)
		// partial results of the dead worker are lost except the crash; continue after it
		skip = lastIdx + 1
	}
}

func tailOf(path string, n int) string {
	b, err := os.ReadFile(path)
	if err != nil {
		return ""
	}
	if len(b) > n {
		b = b[len(b)-n:]
	}
	return string(b)
}

func lastLines(s string, n int) string {
	// prefer the panic / fatal line if present
	lines := strings.Split(strings.TrimSpace(s), "\n")
	for _, l := range lines {
		if strings.HasPrefix(l, "panic:") || strings.HasPrefix(l, "fatal error:") || strings.Contains(l, "] F") {
			return l
		}
	}
	if len(lines) > n {
		lines = lines[len(lines)-n:]
	}
	return strings.Join(lines, " / ")
}

// ---------------------------------------------------------------------------

type knownFinding struct {
	class string
	text  string
}

func loadKnown(id string) (map[string]string, error) {
	out := map[string]string{}
	f, err := os.Open(filepath.Join(VerifDir, "known_findings.txt"))
	if err != nil {
		if os.IsNotExist(err) {
			return out, nil
		}
		return nil, err
	}
	defer f.Close()
	sc := bufio.NewScanner(f)
	for sc.Scan() {
		ln := strings.TrimSpace(sc.Text())
		// finding: property=C01 class=<class> <text>
		if !strings.HasPrefix(ln, "finding:") {
			continue
		}
		fs := strings.Fields(ln[len("finding:"):])
		if len(fs) < 2 || fs[0] != "property="+id || !strings.HasPrefix(fs[1], "class=") {
			continue
		}
		out[strings.TrimPrefix(fs[1], "class=")] = strings.Join(fs[2:], " ")
	}
	return out, sc.Err()
}

func (r *Run) finish() {
	known, err := loadKnown(r.ID)
	if err != nil {
		fmt.Println("INFRA-ERROR cannot read known_findings.txt:", err)
		os.Exit(2)
	}
	wall := time.Since(r.start).Seconds()
	r.mu.Lock()
	defer r.mu.Unlock()

	var unknown []Violation
	knownSeen := map[string]Violation{}
	var knownOrder []string
	for _, v := range r.violations {
		if _, ok := known[v.Class]; ok {
			if _, seen := knownSeen[v.Class]; !seen {
				knownSeen[v.Class] = v
				knownOrder = append(knownOrder, v.Class)
			}
		} else {
			unknown = append(unknown, v)
		}
	}
	sort.Strings(knownOrder)
	for _, c := range knownOrder {
		v := knownSeen[c]
		fmt.Printf("KNOWN-FINDING: property=%s %s witness=%s\n", r.ID, c, trunc(js(v.Witness), 300))
	}
	exit := 0
	if r.Replay == "" {
		os.RemoveAll(filepath.Join(OutDir(), "replays", r.ID))
	}
	seenClass := map[string]bool{}
	for i, v := range unknown {
		exit = 1
		if seenClass[v.Class] {
			continue
		}
		seenClass[v.Class] = true
		dir := filepath.Join(OutDir(), "replays", r.ID)
		os.MkdirAll(dir, 0755)
		h := sha1.Sum([]byte(v.Class))
		path := filepath.Join(dir, fmt.Sprintf("%d-%s.json", i, hex.EncodeToString(h[:4])))
		b, _ := json.MarshalIndent(map[string]interface{}{"property": r.ID, "tier": r.Tier, "class": v.Class, "msg": v.Msg, "case": v.Witness}, "", " ")
		if r.Replay == "" {
			os.WriteFile(path, b, 0644)
		} else {
			path = r.Replay
		}
		fmt.Printf("VIOLATION property=%s replay=%s class=%s msg=%s\n", r.ID, path, v.Class, trunc(v.Msg, 400))
	}
	if r.Replay != "" {
		if exit == 0 {
			fmt.Printf("REPLAY property=%s: case holds (or is a known finding)\n", r.ID)
		}
		os.Exit(exit)
	}

	// evidence
	cov := map[string]interface{}{}
	for k, v := range r.extra {
		cov[k] = v
	}
	for k, v := range r.extraSum {
		cov[k] = v
	}
	cov["evaluations"] = r.evals
	cov["distinct_nontrivial"] = len(r.distinct)
	cov["rule"] = r.Rule
	samples := r.samples
	if len(samples) == 0 {
		samples = []interface{}{}
	}
	cov["samples"] = samples
	cov["exhaustive"] = len(r.notExh) == 0
	if len(r.notExh) > 0 {
		cov["caps_hit"] = r.notExh
	}
	if r.Level == "model_checking" {
		cov["states"] = r.states
		cov["transitions"] = r.transitions
		cov["traces_validated_against_impl"] = r.transitions
	} else if r.states > 0 || r.transitions > 0 {
		cov["states"] = r.states
		cov["transitions"] = r.transitions
	}
	var kf []string
	for _, c := range knownOrder {
		kf = append(kf, c)
	}
	if len(kf) > 0 {
		cov["known_findings_reproduced"] = kf
	}
	ev := map[string]interface{}{
		"property_id": r.ID, "tier": r.Tier, "seed": r.Seed, "level": r.Level,
		"coverage": cov, "assumptions": append([]string{}, r.assumptions...), "wall_s": wall,
		"violations": len(unknown),
	}
	os.MkdirAll(filepath.Join(OutDir(), "evidence"), 0755)
	b, _ := json.MarshalIndent(ev, "", " ")
	if err := os.WriteFile(filepath.Join(OutDir(), "evidence", r.ID+".json"), b, 0644); err != nil {
		fmt.Println("INFRA-ERROR cannot write evidence:", err)
		os.Exit(2)
	}
	if len(r.distinct) < 2 {
		fmt.Printf("WARNING property=%s vacuity: %d distinct outcomes from %d cases\n", r.ID, len(r.distinct), r.evals)
	}
	fmt.Printf("%s %s: evaluations=%d distinct=%d states=%d transitions=%d exhaustive=%v known_findings=%d violations=%d wall=%.1fs\n",
		r.ID, r.Tier, r.evals, len(r.distinct), r.states, r.transitions, len(r.notExh) == 0, len(knownOrder), len(unknown), wall)
	os.Exit(exit)
}

func trunc(s string, n int) string {
	if len(s) > n {
		return s[:n] + "…"
	}
	return s
}

// ReexecIn replaces this process by the group binary named by env variable envVar
// (set by ./v for a check's extra_groups) unless this process already is that
// binary.  Used to replay a schedule witness in the overlay build it came from.
func ReexecIn(envVar string) {
	exe := os.Getenv(envVar)
	self, _ := os.Executable()
	if exe == "" || exe == self {
		return
	}
	if err := syscall.Exec(exe, append([]string{exe}, os.Args[1:]...), os.Environ()); err != nil {
		Fatal("cannot re-exec in %s: %v", exe, err)
	}
}

// ReplayCase loads the "case" member of a replay file into v.
func (r *Run) ReplayCase(v interface{}) error {
	b, err := os.ReadFile(r.Replay)
	if err != nil {
		return err
	}
	var w struct {
		Case json.RawMessage `json:"case"`
	}
	if err := json.Unmarshal(b, &w); err != nil {
		return err
	}
	return json.Unmarshal(w.Case, v)
}

// Fatal is an infrastructure error: never 0 or 1.
func Fatal(format string, a ...interface{}) {
	fmt.Printf("INFRA-ERROR "+format+"\n", a...)
	os.Exit(2)
}

// TempDir makes a scratch directory (outside /repo and /verif) removed by the caller.
func TempDir(prefix string) string {
	base := os.Getenv("VERIF_SCRATCH")
	if base == "" {
		base = "/dev/shm"
		if st, err := os.Stat(base); err != nil || !st.IsDir() {
			base = os.TempDir()
		}
	}
	d, err := os.MkdirTemp(base, "verif-"+prefix+"-")
	if err != nil {
		Fatal("tempdir: %v", err)
	}
	return d
}
